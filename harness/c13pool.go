package main

// C13: every scenario that calls the real store runs in a WORKER process (this binary started as
// `c13worker`), fed one input at a time over a pipe.  A panic on a goroutine the scenario cannot
// guard (singleflight runs the poll and the lookups on goroutines of its own and re-panics
// there), a fatal runtime error or a hang therefore costs one worker, not the run: the input in
// flight becomes a direct violation record carrying the exact input, the worker is restarted and
// the run goes on.

import (
	"bufio"
	"bytes"
	"encoding/json"
	"fmt"
	"io"
	"os"
	"os/exec"
	"path/filepath"
	"strings"
	"sync"
	"testing"
	"time"
)

func init() { commands["c13worker"] = c13Worker }

type c13Job struct {
	In     c13Input `json:"in"`
	Tags   []string `json:"tags,omitempty"`
	Corpus string   `json:"corpus,omitempty"`
	Self   bool     `json:"self,omitempty"` // also return the self-test variants of a non-trivial case
}

type c13Reply struct {
	Recs []Record `json:"recs"` // the case itself, then its self-test variants
}

// the worker's *testing.T: histories with slow cache writes run in testing/synctest bubbles
var c13T *testing.T

func c13Worker(o Opts) {
	// the whole loop runs as a "test" of this plain binary, so that synctest is available;
	// inTest exits the process when the loop ends
	inTest(func(t *testing.T) {
		c13T = t
		c13WorkerLoop(o)
	})
}

func c13WorkerLoop(o Opts) {
	workdir := filepath.Join(o.Work, "c13tmp")
	os.MkdirAll(workdir, 0700)
	defer os.RemoveAll(workdir)
	in := bufio.NewReaderSize(os.Stdin, 1<<20)
	out := bufio.NewWriterSize(os.Stdout, 1<<20)
	for {
		line, err := in.ReadBytes('\n')
		if len(line) > 1 {
			var job c13Job
			if jerr := json.Unmarshal(line, &job); jerr != nil {
				fatal("c13worker: %v", jerr)
			}
			rec, c := c13Record(job.In, workdir, job.Tags)
			rec.Corpus = job.Corpus
			reply := c13Reply{Recs: []Record{rec}}
			if job.Self && rec.Nontrivial && rec.Direct == nil {
				reply.Recs = append(reply.Recs, c13SelfTests(rec, c)...)
			}
			bs, _ := json.Marshal(reply)
			out.Write(bs)
			out.WriteByte('\n')
			out.Flush()
		}
		if err != nil {
			return
		}
	}
}

type c13Tail struct {
	mu  sync.Mutex
	buf []byte
}

func (t *c13Tail) Write(p []byte) (int, error) {
	t.mu.Lock()
	defer t.mu.Unlock()
	t.buf = append(t.buf, p...)
	if len(t.buf) > 1<<16 {
		t.buf = t.buf[len(t.buf)-1<<15:]
	}
	return len(p), nil
}

func (t *c13Tail) String() string {
	t.mu.Lock()
	defer t.mu.Unlock()
	return string(t.buf)
}

type c13Pool struct {
	work    string
	cmd     *exec.Cmd
	stdin   io.WriteCloser
	lines   chan []byte
	stderr  *c13Tail
	crashes int
	// hangs are expensive (each costs the full time-out): they are counted per scenario kind, and
	// once the run has seen c13MaxHangs of them, every further input of a kind that has hung
	// before is skipped (one summary record per kind at the end)
	hangs     map[string]int
	allHangs  int
	skipped   map[string]int
	lastWasHang bool
}

const (
	c13ScenarioTimeout = 10 * time.Second // ordinary scenarios take milliseconds (virtual time included)
	c13MaxHangs        = 5
)

// skip reports whether an input of this kind should not be run any more.
func (p *c13Pool) skip(kind string) bool {
	if p.hangs[kind] > 0 && p.allHangs >= c13MaxHangs {
		if p.skipped == nil {
			p.skipped = map[string]int{}
		}
		p.skipped[kind]++
		return true
	}
	return false
}

func (p *c13Pool) start() {
	self, err := os.Executable()
	if err != nil {
		fatal("C13: %v", err)
	}
	p.cmd = exec.Command(self, "c13worker", "-work", p.work)
	p.stderr = &c13Tail{}
	p.cmd.Stderr = p.stderr
	p.stdin, err = p.cmd.StdinPipe()
	if err != nil {
		fatal("C13: %v", err)
	}
	stdout, err := p.cmd.StdoutPipe()
	if err != nil {
		fatal("C13: %v", err)
	}
	if err := p.cmd.Start(); err != nil {
		fatal("C13: cannot start the worker: %v", err)
	}
	lines := make(chan []byte, 1)
	p.lines = lines
	go func() {
		rd := bufio.NewReaderSize(stdout, 1<<20)
		for {
			line, err := rd.ReadBytes('\n')
			if len(line) > 1 {
				lines <- line
			}
			if err != nil {
				close(lines)
				return
			}
		}
	}()
}

func (p *c13Pool) stop() {
	if p.cmd == nil {
		return
	}
	p.stdin.Close()
	done := make(chan struct{})
	go func() { p.cmd.Wait(); close(done) }()
	select {
	case <-done:
	case <-time.After(3 * time.Second):
		p.cmd.Process.Kill()
		<-done
	}
	p.cmd = nil
}

// what the dying worker said: the panic message and the first frames
func c13CrashText(stderr string) string {
	i := strings.Index(stderr, "panic:")
	if j := strings.Index(stderr, "fatal error:"); i < 0 || (j >= 0 && j < i) {
		if j >= 0 {
			i = j
		}
	}
	if i < 0 {
		i = max(0, len(stderr)-600)
	}
	s := stderr[i:]
	if len(s) > 900 {
		s = s[:900] + " ..."
	}
	return s
}

// do runs one input in the worker.  If the worker dies or does not answer in time, the result is
// one record with a failing direct verdict that carries the input.
func (p *c13Pool) do(job c13Job, timeout time.Duration) []Record {
	if p.cmd == nil {
		p.start()
	}
	bs, _ := json.Marshal(job)
	bs = append(bs, '\n')
	what := ""
	if _, err := p.stdin.Write(bs); err != nil {
		what = "the worker process was gone before this input could be sent: " + err.Error()
	} else {
		select {
		case line, ok := <-p.lines:
			if ok {
				var reply c13Reply
				if err := json.Unmarshal(line, &reply); err != nil || len(reply.Recs) == 0 {
					fatal("C13: unreadable reply from the worker: %v", err)
				}
				return reply.Recs
			}
			p.cmd.Wait()
			what = "the process running the real store CRASHED on this input (a panic outside the calling goroutine, or a fatal runtime error): " + c13CrashText(p.stderr.String())
		case <-time.After(timeout):
			p.cmd.Process.Kill()
			p.cmd.Wait()
			what = fmt.Sprintf("the scenario did not finish within %v (hang); the process was killed", timeout)
			if p.hangs == nil {
				p.hangs = map[string]int{}
			}
			p.hangs[job.In.Kind]++
			p.allHangs++
			p.lastWasHang = true
		}
	}
	p.cmd = nil
	p.crashes++
	tag := "worker-crash"
	if p.lastWasHang {
		tag, p.lastWasHang = "worker-hang", false
	}
	kb, _ := json.Marshal(job.In)
	obs := map[string]any{"crash": what}
	if len(job.In.Cache) > 0 {
		obs["cache_text"] = string(bytes.ToValidUTF8(job.In.Cache, []byte("?")))
	}
	return []Record{{Kind: job.In.Kind, Input: job.In, Obs: obs, Key: job.In.Kind + ":" + string(kb), Tags: append(job.Tags, tag),
		Corpus: job.Corpus, Nontrivial: true, Direct: &DirectVerdict{OK: false, What: what}}}
}
