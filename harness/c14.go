package main

// C14: small concurrent programs on real goroutines against a real db.DB (directly, or
// through the HTTP handlers of server.New), every call stamped at invocation and at
// response by one global atomic counter.  The recorded history and the final sequential
// dump go to the kernel, which decides linearizability against the sequential model with
// the verified checker (Server/Lin.v).  The harness is built with -race; the programs run
// in a child process so that a race report, a fatal runtime error (concurrent map access)
// or a hang becomes a direct violation naming the program that was running.

import (
	"bytes"
	"context"
	"encoding/json"
	"fmt"
	"net/http"
	"net/http/httptest"
	"os"
	"os/exec"
	"path/filepath"
	"runtime"
	"sort"
	"strings"
	"sync"
	"sync/atomic"
	"time"

	"github.com/tailscale/setec/server"
	"github.com/tailscale/setec/types/api"
	"tailscale.com/client/tailscale/apitype"
)

func init() {
	commands["C14"] = runC14
	commands["C14child"] = runC14Child
}

type c14Call struct {
	DBStep
	Pre int `json:"pre,omitempty"` // before the call: 0 nothing, 1 Gosched, 2.. sleep/spin (see c14Pause)
}

type c14Input struct {
	Mode     string      `json:"mode"`  // db | http
	Shape    string      `json:"shape"` // generator bucket
	Procs    int         `json:"procs"` // GOMAXPROCS while the clients run
	Callers  []DBCaller  `json:"callers"`
	Setup    []DBStep    `json:"setup"`         // sequential prefix (part of the history)
	Threads  [][]c14Call `json:"threads"`       // the concurrent clients
	Per      int         `json:"per,omitempty"` // calls per client between two quiescent points (0 = all at once)
	Between  [][]DBStep  `json:"between,omitempty"` // Between[k]: sequential calls at the quiescent point before segment k's clients start (part of segment k's history); steps with save_fail run while the state directory is unreachable
	Big      int         `json:"big,omitempty"` // bytes of an untouched filler secret: slow saves put the mutex into FIFO hand-off
	Repeat   int         `json:"repeat,omitempty"`
	SlowLog  int         `json:"slow_log,omitempty"` // microseconds the audit sink takes per record (widens the windows around it)
	Recorded *c14Obs     `json:"recorded,omitempty"` // a history recorded earlier: re-decided verbatim on replay
}

type c14CallObs struct {
	Thread int    `json:"thread"` // -1 = setup
	Inv    uint64 `json:"inv"`
	Rsp    uint64 `json:"rsp"`
	Op     DBStep `json:"op"`
	Res    resObs `json:"res"`
	Status int    `json:"status,omitempty"`
}

type c14Obs struct {
	Segment  int          `json:"segment"`
	InitDisk []secDump    `json:"init_disk"` // the dump at the quiescent point before the segment
	InitGen  uint64       `json:"init_gen"`
	Calls    []c14CallObs `json:"calls"`
	Live     []secDump    `json:"live"`
	Disk     []secDump    `json:"disk"`
	Gen      uint64       `json:"gen"`
	Note     string       `json:"note,omitempty"`
}

// the filler value is not one of the value tokens: both sides call it corruptToken
var c14BigValue []byte

func c14Value(st DBStep) []byte {
	if st.Val == corruptToken {
		return c14BigValue
	}
	return valueBytes(st.Val)
}

func c14Pause(k int) {
	switch {
	case k == 0:
	case k == 1:
		runtime.Gosched()
	case k < 40:
		time.Sleep(time.Duration(k*k) * time.Microsecond / 4)
	default:
		x := 0
		for i := 0; i < k*50; i++ {
			x += i
		}
		_ = x
	}
}

// ---- execution ----

type c14Target interface {
	call(callerIdx int, st DBStep) (resObs, int)
}

type c14DB struct {
	env     *dbEnv
	callers []DBCaller
}

func (t *c14DB) call(ci int, st DBStep) (resObs, int) {
	d := t.env.d
	c := mkCaller(t.callers[ci])
	name := string(st.Name)
	var err error
	var o resObs
	switch st.Kind {
	case "list":
		var infos []*api.SecretInfo
		infos, err = d.List(c)
		if err == nil {
			o = resObs{Class: "list"}
			for _, in := range infos {
				o.List = append(o.List, infoToDump(in))
			}
		}
	case "info":
		var in *api.SecretInfo
		in, err = d.Info(c, name)
		if err == nil {
			o = resObs{Class: "info", Act: uint64(in.ActiveVersion)}
			for _, v := range in.Versions {
				o.Vers = append(o.Vers, uint64(v))
			}
		}
	case "get", "getcond", "getver":
		var sv *api.SecretValue
		switch st.Kind {
		case "get":
			sv, err = d.Get(c, name)
		case "getcond":
			sv, err = d.GetConditional(c, name, api.SecretVersion(st.Ver))
		default:
			sv, err = d.GetVersion(c, name, api.SecretVersion(st.Ver))
		}
		if err == nil {
			o = resObs{Class: "val", Ver: uint64(sv.Version), Val: valueToken(sv.Value, maxValueToken)}
		}
	case "put":
		var v api.SecretVersion
		v, err = d.Put(c, name, c14Value(st))
		if err == nil {
			o = resObs{Class: "ver", Ver: uint64(v)}
		}
	case "activate":
		err = d.Activate(c, name, api.SecretVersion(st.Ver))
		if err == nil {
			o = resObs{Class: "ok"}
		}
	case "delver":
		err = d.DeleteVersion(c, name, api.SecretVersion(st.Ver))
		if err == nil {
			o = resObs{Class: "ok"}
		}
	case "del":
		err = d.Delete(c, name)
		if err == nil {
			o = resObs{Class: "ok"}
		}
	default:
		fatal("c14: unknown op kind %q", st.Kind)
	}
	if err != nil {
		o = resObs{Class: classify(err), Err: err.Error()}
	}
	return o, 0
}

type c14HTTP struct {
	env     *dbEnv
	mux     *http.ServeMux
	callers []DBCaller
}

func c14Addr(ci int) string { return fmt.Sprintf("100.64.0.%d:4242", 10+ci) }

func newC14HTTP(env *dbEnv, callers []DBCaller) (*c14HTTP, error) {
	t := &c14HTTP{env: env, mux: http.NewServeMux(), callers: callers}
	_, err := server.New(context.Background(), server.Config{
		DB:  env.d,
		Mux: t.mux,
		WhoIs: func(ctx context.Context, addr string) (*apitype.WhoIsResponse, error) {
			for i, c := range callers {
				if c14Addr(i) == addr {
					return mkWhoIs(whoisSpec{Login: c.ID, Bare: capSpec{Kind: "rules", Rules: c.Rules}, HTTPS: capSpec{Kind: "absent"}})
				}
			}
			return nil, fmt.Errorf("unknown peer %q", addr)
		},
	})
	return t, err
}

func (t *c14HTTP) prepare(ci int, st DBStep) (*http.Request, string) {
	rq := reqSpec{Method: "POST", BodyKind: "valid", Name: st.Name, Ver: st.Ver, Val: st.Val}
	switch st.Kind {
	case "list", "info", "put", "activate":
		rq.Endpoint = st.Kind
	case "get":
		rq.Endpoint, rq.Ver = "get", 0
	case "getver":
		rq.Endpoint = "get"
	case "getcond":
		rq.Endpoint, rq.Upd = "get", true
	case "delver":
		rq.Endpoint = "delete-version"
	case "del":
		rq.Endpoint = "delete"
	}
	req := httptest.NewRequest("POST", endpointPath(rq.Endpoint), bytes.NewReader(reqBody(rq)))
	req.Header.Set("Content-Type", "application/json")
	req.Header.Set("Sec-X-Tailscale-No-Browsers", "setec")
	req.RemoteAddr = c14Addr(ci)
	return req, rq.Endpoint
}

func c14HTTPResult(endpoint string, rec *httptest.ResponseRecorder) (resObs, int) {
	switch rec.Code {
	case 200:
		if res, ok := decodeResult(endpoint, rec.Body.Bytes()); ok {
			return *res, 200
		}
		return resObs{Class: "other", Err: "undecodable 200 body"}, 200
	case 404:
		return resObs{Class: "notfound"}, 404
	case 403:
		return resObs{Class: "denied"}, 403
	case 304:
		return resObs{Class: "notchanged"}, 304
	}
	return resObs{Class: "other", Err: strings.TrimSpace(rec.Body.String())}, rec.Code
}

// runC14Program executes one program once and returns the recorded history.
func runC14Program(work string, idx int, in c14Input) ([]c14Obs, error) {
	dir := filepath.Join(work, fmt.Sprintf("c14_%d", idx%8))
	env, err := newDBEnv(dir)
	if err != nil {
		return nil, err
	}
	defer env.close()
	env.sink.mu.Lock()
	env.sink.quiet = true // the order of audit records is C06's; here the writer is only exercised
	env.sink.delay = time.Duration(in.SlowLog) * time.Microsecond
	env.sink.mu.Unlock()
	var dbt = &c14DB{env: env, callers: in.Callers}
	var ht *c14HTTP
	if in.Mode == "http" {
		if ht, err = newC14HTTP(env, in.Callers); err != nil {
			return nil, err
		}
	}
	var ctr atomic.Uint64
	obs := &c14Obs{InitGen: env.d.WriteGen()}
	one := func(thread int, st DBStep) c14CallObs {
		co := c14CallObs{Thread: thread, Op: st}
		if st.SaveFail { // only at quiescent points: the rename is process-wide
			hidden := env.state + ".hidden"
			if err := os.Rename(env.state, hidden); err != nil {
				fatal("hide state dir: %v", err)
			}
			defer func() {
				if err := os.Rename(hidden, env.state); err != nil {
					fatal("restore state dir: %v", err)
				}
			}()
		}
		if ht != nil && st.Val != corruptToken {
			req, ep := ht.prepare(st.Caller, st)
			rec := httptest.NewRecorder()
			co.Inv = ctr.Add(1)
			ht.mux.ServeHTTP(rec, req)
			co.Rsp = ctr.Add(1)
			co.Res, co.Status = c14HTTPResult(ep, rec)
		} else {
			co.Inv = ctr.Add(1)
			res, _ := dbt.call(st.Caller, st)
			co.Rsp = ctr.Add(1)
			co.Res = res
		}
		return co
	}
	if in.Big > 0 {
		if len(c14BigValue) != in.Big {
			c14BigValue = bytes.Repeat([]byte("filler-"), in.Big/7+1)[:in.Big]
		}
		obs.Calls = append(obs.Calls, one(-1, DBStep{Kind: "put", Name: []byte("zz"), Val: corruptToken}))
	}
	for _, st := range in.Setup {
		obs.Calls = append(obs.Calls, one(-1, st))
	}
	// the dump at a quiescent point (no call in flight)
	quiesce := func(o *c14Obs) {
		live, err := dumpVia(env.d, env.super)
		if err != nil {
			o.Note += "dump failed: " + err.Error() + "; "
			live = []secDump{{Name: []byte("<<dump failed>>")}}
		}
		o.Live = live
		o.Gen = env.d.WriteGen()
		disk, err := decodeFile(env.path, env.kek.inner)
		if err != nil {
			o.Note += "file decode failed: " + err.Error() + "; "
			disk = []secDump{{Name: []byte("<<file undecodable>>")}}
		}
		o.Disk = disk
	}
	maxLen := 0
	for _, th := range in.Threads {
		if len(th) > maxLen {
			maxLen = len(th)
		}
	}
	per := in.Per
	if per <= 0 || per > maxLen {
		per = maxLen
	}
	procs := in.Procs
	if procs <= 0 {
		procs = 4
	}
	old := runtime.GOMAXPROCS(procs)
	defer runtime.GOMAXPROCS(old)
	var all []c14Obs
	for seg, from := 0, 0; from < maxLen || seg == 0; seg, from = seg+1, from+per {
		if seg < len(in.Between) {
			for _, st := range in.Between[seg] {
				obs.Calls = append(obs.Calls, one(-1, st))
			}
		}
		perThread := make([][]c14CallObs, len(in.Threads))
		var wg sync.WaitGroup
		start := make(chan struct{})
		for ti, th := range in.Threads {
			lo, hi := from, from+per
			if lo > len(th) {
				lo = len(th)
			}
			if hi > len(th) {
				hi = len(th)
			}
			wg.Add(1)
			go func(ti int, th []c14Call) {
				defer wg.Done()
				<-start
				for _, c := range th {
					c14Pause(c.Pre)
					perThread[ti] = append(perThread[ti], one(ti, c.DBStep))
				}
			}(ti, th[lo:hi])
		}
		close(start)
		wg.Wait()
		for _, p := range perThread {
			obs.Calls = append(obs.Calls, p...)
		}
		sort.SliceStable(obs.Calls, func(i, j int) bool { return obs.Calls[i].Inv < obs.Calls[j].Inv })
		obs.Segment = seg
		quiesce(obs)
		all = append(all, *obs)
		obs = &c14Obs{InitDisk: obs.Disk, InitGen: obs.Gen}
	}
	env.sink.mu.Lock()
	torn := env.sink.torn
	env.sink.mu.Unlock()
	if torn > 0 {
		return nil, fmt.Errorf("the audit writer handed %d writes to its sink that were not whole records (concurrent records interleaved, truncated or lost)", torn)
	}
	return all, nil
}

// ---- Gallina ----

func coqC14(in c14Input, obs *c14Obs) string {
	cs := make([]string, len(in.Callers))
	for i, c := range in.Callers {
		cs[i] = coqCaller(c)
	}
	calls := make([]string, len(obs.Calls))
	for i, c := range obs.Calls {
		ctor := "LC"
		if c.Op.SaveFail {
			ctor = "LCf"
		}
		calls[i] = fmt.Sprintf("%s %d %d %d (%s) %s", ctor, c.Inv, c.Rsp, c.Op.Caller, coqOp(c.Op), coqRes(c.Res))
	}
	return fmt.Sprintf("LCase %s %s %d %s %s %s %d", coqList(cs), coqDisk(obs.InitDisk), obs.InitGen, coqList(calls), coqLive(obs.Live), coqDisk(obs.Disk), obs.Gen)
}

func c14Overlap(obs *c14Obs) (overlaps int, mutOverlap bool) {
	for i, a := range obs.Calls {
		for j, b := range obs.Calls {
			if i < j && a.Thread != b.Thread && a.Inv < b.Rsp && b.Inv < a.Rsp {
				overlaps++
				okMut := func(c c14CallObs) bool {
					return isMut(c.Op.Kind) && (c.Res.Class == "ok" || c.Res.Class == "ver")
				}
				if okMut(a) || okMut(b) {
					mutOverlap = true
				}
			}
		}
	}
	return
}

func c14Record(in c14Input, obs *c14Obs, kind string) Record {
	n, mut := c14Overlap(obs)
	tags := map[string]bool{"mode:" + in.Mode: true, fmt.Sprintf("slow-saves:%v", in.Big > 0): true, fmt.Sprintf("slow-log:%v", in.SlowLog > 0): true, "shape:" + in.Shape: true, fmt.Sprintf("threads:%d", len(in.Threads)): true,
		fmt.Sprintf("procs:%d", in.Procs): true}
	switch {
	case n == 0:
		tags["overlap:none"] = true
	case n < 4:
		tags["overlap:1-3"] = true
	default:
		tags["overlap:4+"] = true
	}
	refused := map[string]bool{}
	for _, c := range obs.Calls {
		tags["op:"+c.Op.Kind] = true
		tags["res:"+c.Res.Class] = true
		if c.Op.SaveFail {
			tags["refused:"+c.Op.Kind] = true
			if c.Res.Class == "other" {
				refused[string(c.Op.Name)] = true
			}
		} else if refused[string(c.Op.Name)] && !isMut(c.Op.Kind) && c.Thread >= 0 {
			tags["read-after-refused-save:"+c.Op.Kind] = true
		}
	}
	tags[fmt.Sprintf("refused-saves:%v", len(refused) > 0)] = true
	tags[fmt.Sprintf("calls:%d", (len(obs.Calls)/4)*4)] = true
	var key strings.Builder
	fmt.Fprintf(&key, "%s|%s|%d|", in.Mode, coqDisk(obs.InitDisk), obs.InitGen)
	for _, c := range obs.Calls {
		fmt.Fprintf(&key, "%d,%d,%d,%s,%s,%d,%d,%v>%s;", c.Inv, c.Rsp, c.Op.Caller, c.Op.Kind, c.Op.Name, c.Op.Ver, c.Op.Val, c.Op.SaveFail, coqRes(c.Res))
	}
	in2 := in
	in2.Recorded = obs
	return Record{Kind: kind, Input: in2, Obs: obs, Key: key.String(), Nontrivial: len(in.Threads) >= 2 && mut,
		Tags: sortedKeys(tags), Coq: coqC14(in, obs)}
}

// ---- generation ----

func genC14(seed uint64, i int) c14Input {
	r := NewRand(seed, uint64(140000+i))
	in := c14Input{Mode: "db", Procs: []int{1, 2, 4, 4, 8, 16}[r.IntN(6)]}
	if i%3 == 2 {
		in.Mode = "http"
	}
	if i%4 == 1 { // a slow audit device: calls overlap around their audit records
		in.SlowLog = []int{50, 200, 800}[r.IntN(3)]
	}
	// caller 0 may do everything; caller 1 reads everything but may only put/activate "b"
	in.Callers = []DBCaller{{ID: 1, Rules: superRules()},
		{ID: 2, Rules: []c07Rule{{Actions: []string{"get", "info"}, Secrets: [][]byte{[]byte("*")}},
			{Actions: []string{"put", "activate"}, Secrets: [][]byte{[]byte("b")}}}}}
	names := [][]byte{[]byte("a"), []byte("b")}
	two := r.IntN(3) == 0
	name := func() []byte {
		if two && r.IntN(3) == 0 {
			return names[1]
		}
		return names[0]
	}
	caller := func() int {
		if r.IntN(8) == 0 {
			return 1
		}
		return 0
	}
	// sequential prefix
	for k := r.IntN(4); k > 0; k-- {
		in.Setup = append(in.Setup, DBStep{Kind: "put", Name: name(), Val: 1 + r.IntN(3)})
	}
	if len(in.Setup) >= 2 && r.IntN(2) == 0 {
		in.Setup = append(in.Setup, DBStep{Kind: "activate", Name: names[0], Ver: 2})
	}
	nth := 2 + r.IntN(3)
	per := 2 + r.IntN(3)
	for nth*per > 11 {
		per--
	}
	pre := func() int {
		switch r.IntN(6) {
		case 0, 1:
			return 0
		case 2:
			return 1
		case 3:
			return 2 + r.IntN(30)
		}
		return 40 + r.IntN(200)
	}
	mk := func(kind string) c14Call {
		return c14Call{DBStep: DBStep{Caller: caller(), Kind: kind, Name: name(), Ver: uint32(1 + r.IntN(3)), Val: 1 + r.IntN(4)}, Pre: pre()}
	}
	weights := map[string]int{"put": 30, "activate": 14, "delver": 9, "del": 6, "get": 14, "getver": 8, "getcond": 4, "info": 8, "list": 7}
	shapes := []string{"random", "random", "random", "puts", "activate-get", "delete-put", "delver-info", "delver-activate", "list-two-names", "rotate", "activate-get", "poll-activate", "refused-saves", "refused-saves"}
	in.Shape = shapes[r.IntN(len(shapes))]
	if r.IntN(16) == 0 {
		in.Big = 60000 + 40000*r.IntN(3)
	}
	if in.Shape == "activate-get" {
		in.Setup = []DBStep{{Kind: "put", Name: names[0], Val: 1}, {Kind: "put", Name: names[0], Val: 2}}
		pre = func() int { return 0 }
		if nth < 3 {
			nth, per = 3, 3
		}
	}
	if in.Shape == "poll-activate" {
		// pollers (conditional gets carrying either version) and plain readers against an operator flipping
		// the active version, through the HTTP handlers: whatever a handler remembers between requests must
		// not outlive an activate that has returned
		in.Mode = "http"
		in.Setup = []DBStep{{Kind: "put", Name: names[0], Val: 1}, {Kind: "put", Name: names[0], Val: 2}, {Kind: "put", Name: names[1], Val: 3}}
		pre = func() int { return 0 }
		if nth < 3 {
			nth = 3
		}
		per = 3
		// a conditional get that delivers writes its audit record UNDER the database lock: a record slower
		// than a millisecond puts the mutex into FIFO hand-off, so queued calls run in arrival order
		in.SlowLog = []int{300, 1500, 4000}[r.IntN(3)]
		if nth < 4 {
			nth = 4
		}
	}
	if in.Shape == "rotate" {
		// key rotation racing readers: the active version moves up and the old one is deleted at once;
		// a get must never fall between the two (it names no version, so it can never be "not found")
		in.Setup = nil
		for v := 1; v <= 9; v++ {
			in.Setup = append(in.Setup, DBStep{Kind: "put", Name: names[0], Val: v})
		}
		pre = func() int { return 0 }
		if nth < 3 {
			nth = 3
		}
		per = 4
		if r.IntN(2) == 0 && in.SlowLog == 0 {
			in.SlowLog = []int{100, 400}[r.IntN(2)]
		}
	}
	if in.Shape == "activate-get" && r.IntN(2) == 0 && in.SlowLog == 0 {
		in.SlowLog = []int{100, 400}[r.IntN(2)]
	}
	if in.Shape == "list-two-names" || in.Shape == "delver-activate" {
		// contention shapes: a fixed prefix, no pauses
		in.Setup = []DBStep{{Kind: "put", Name: names[0], Val: 1}, {Kind: "put", Name: names[1], Val: 1}, {Kind: "put", Name: names[0], Val: 2}}
		pre = func() int { return 0 }
		if nth < 3 {
			nth, per = 3, 3
		}
	}
	if in.Shape == "refused-saves" {
		// at every quiescent point one refused mutation of each kind (the state directory is unreachable
		// while it runs), then clients reading in every way - with every version worth asking for - and
		// writing: what a refused call left behind outside the rolled-back store would show
		in.Setup = []DBStep{{Kind: "put", Name: names[0], Val: 1}, {Kind: "put", Name: names[0], Val: 2}, {Kind: "put", Name: names[1], Val: 3}}
		if r.IntN(2) == 0 {
			in.Setup = append(in.Setup, DBStep{Kind: "put", Name: names[0], Val: 3})
		}
		if nth < 3 {
			nth = 3
		}
		per = 3
	}
	// segments: the clients meet at a quiescent point (where the state is dumped) after every
	// `per` calls, so a long run is decided as a sequence of small histories
	segs := 1 + r.IntN(2)
	if in.Shape == "activate-get" || in.Shape == "list-two-names" || in.Shape == "delver-activate" {
		segs = 4
	}
	if in.Shape == "rotate" {
		segs = 2
	}
	if in.Shape == "poll-activate" {
		segs = 4
	}
	if in.Shape == "refused-saves" {
		segs = 3
	}
	if os.Getenv("VERIF_TIER_INTERNAL") == "thorough" {
		segs *= 2
	}
	in.Per = per
	for t := 0; t < nth; t++ {
		var th []c14Call
		for k := 0; k < per*segs; k++ {
			e := k / per
			_ = e
			var c c14Call
			switch in.Shape {
			case "puts": // version allocation: everybody puts (different and equal values)
				c = mk("put")
				if r.IntN(5) == 0 {
					c = mk([]string{"info", "get", "list"}[r.IntN(3)])
				}
			case "activate-get": // a reader must see a version number with its own bytes
				if t == 0 || (t == 1 && nth > 3) {
					c = mk("activate")
					c.Name, c.Ver, c.Caller = names[0], uint32(1+(k+t)%2), 0
				} else {
					c = mk([]string{"get", "get", "info", "list", "getver", "getcond"}[r.IntN(6)])
				}
			case "poll-activate":
				// ONE activate at the start of every segment (the operator rotates once, then the pollers go
				// on): a poll invoked after it returned must not be told "not changed" for the old version.
				// Conditional gets on "b" carrying a version it never had deliver a value, i.e. they hold the
				// database lock while their (slow) audit record is written: the queue behind them is served
				// in arrival order once a waiter has waited more than a millisecond.
				switch {
				case t == 0 && k%per == 0:
					c = mk("activate")
					c.Name, c.Ver, c.Caller = names[0], uint32(1+(e+1)%2), 0
				case t == 0 || t == 3:
					c = mk("getcond")
					c.Name, c.Ver, c.Caller = names[1], 99, 0
				case t == 1:
					c = mk("getcond")
					c.Name, c.Ver, c.Caller = names[0], uint32(1+(k+e)%2), 0
				default:
					c = mk([]string{"get", "getcond"}[k%2])
					c.Name, c.Ver, c.Caller = names[0], uint32(1+r.IntN(2)), 0
				}
			case "rotate":
				if t == 0 { // activate k+1, delete k, activate k+2, delete k+1, ...
					step := k/2 + 1
					if k%2 == 0 {
						c = mk("activate")
						c.Ver = uint32(step + 1)
					} else {
						c = mk("delver")
						c.Ver = uint32(step)
					}
					c.Name, c.Caller = names[0], 0
				} else {
					c = mk([]string{"get", "get", "get", "getcond", "info"}[r.IntN(5)])
					c.Name = names[0]
					c.Ver = uint32(1 + r.IntN(6))
				}
			case "refused-saves":
				switch x := r.IntN(20); {
				case x < 5:
					c = mk("getcond")
				case x < 8:
					c = mk("getver")
				case x < 11:
					c = mk("get")
				case x < 13:
					c = mk("info")
				case x < 15:
					c = mk("list")
				default:
					c = mk([]string{"put", "activate", "delver", "put", "del"}[r.IntN(5)])
				}
				if r.IntN(5) != 0 {
					c.Name = names[0]
				} else {
					c.Name = names[1]
				}
				c.Ver = uint32(1 + r.IntN(4))
			case "delete-put": // re-creation restarts at version 1
				if t == 0 {
					c = mk([]string{"del", "put"}[k%2])
				} else {
					c = mk([]string{"put", "get", "info", "list", "put"}[r.IntN(5)])
				}
			case "delver-activate": // the active version can never be deleted
				switch t {
				case 0:
					c = mk("delver")
					c.Name, c.Ver, c.Caller = names[0], uint32(2+e), 0
				case 1:
					c = mk("activate")
					c.Name, c.Ver, c.Caller = names[0], uint32(2+e), 0
					if k%2 == 1 {
						c.Ver = 1
					}
				case 2:
					c = mk("put") // keeps new versions coming
					c.Name, c.Val, c.Caller = names[0], 1+k%4, 0
				default:
					c = mk([]string{"get", "info", "getver"}[r.IntN(3)])
					c.Name = names[0]
				}
			case "list-two-names": // one client changes a then b; a list showing the change of b shows the one of a
				if t == 0 {
					c = mk("put")
					c.Name, c.Val, c.Caller = names[k%2], 1+(k/2)%4, 0
				} else {
					c = mk("list")
					c.Caller = 0
				}
			case "delver-info":
				if t == 0 {
					c = mk([]string{"delver", "put"}[k%2])
					c.Ver = uint32(2 + r.IntN(2))
				} else {
					c = mk([]string{"info", "list", "getver", "activate", "put"}[r.IntN(5)])
				}
			default:
				c = mk(pickWeighted(r, weights))
			}
			th = append(th, c)
		}
		in.Threads = append(in.Threads, th)
	}
	// refused saves at the quiescent points: always in the shape of that name, in a third of the others
	if in.Shape == "refused-saves" || r.IntN(3) == 0 {
		in.Between = make([][]DBStep, segs)
		for k := range in.Between {
			if in.Shape != "refused-saves" && segs > 1 && k == 0 && r.IntN(2) == 0 {
				continue
			}
			in.Between[k] = c14Refused(r, in.Shape == "refused-saves", names)
		}
	}
	return in
}

// c14Refused: mutations of each kind whose save will be refused (some need no save, or are denied,
// and answer as usual), in random order.
func c14Refused(r *randT, full bool, names [][]byte) []DBStep {
	var all []DBStep
	for v := uint32(1); v <= 4; v++ {
		all = append(all, DBStep{Kind: "activate", Name: names[0], Ver: v, SaveFail: true})
		if v <= 3 {
			all = append(all, DBStep{Kind: "delver", Name: names[0], Ver: v, SaveFail: true})
		}
	}
	all = append(all,
		DBStep{Kind: "put", Name: names[0], Val: 1 + r.IntN(4), SaveFail: true},
		DBStep{Kind: "put", Name: names[0], Val: 1 + r.IntN(4), SaveFail: true},
		DBStep{Kind: "del", Name: names[0], SaveFail: true},
		DBStep{Kind: "put", Name: names[1], Val: 1 + r.IntN(4), SaveFail: true},
		DBStep{Kind: "activate", Name: names[1], Ver: uint32(1 + r.IntN(2)), SaveFail: true},
		DBStep{Kind: "del", Name: names[1], SaveFail: true},
		DBStep{Kind: "put", Name: []byte("c"), Val: 1, SaveFail: true}, // a creation that is rolled back
		DBStep{Kind: "put", Name: names[0], Val: 2, Caller: 1, SaveFail: true}, // denied before anything
	)
	r.Shuffle(len(all), func(i, j int) { all[i], all[j] = all[j], all[i] })
	if !full {
		all = all[:3+r.IntN(4)]
	}
	return all
}

// ---- child: runs programs, one record per line, flushed after each ----

type c14Part struct {
	Index int      `json:"index"`
	Obs   []c14Obs `json:"obs"`
	Err   string   `json:"err,omitempty"`
}

func runC14Child(o Opts) {
	inputs := readInputs[c14Input](o.Replay)
	f, err := os.Create(o.Out)
	if err != nil {
		fatal("create %s: %v", o.Out, err)
	}
	defer f.Close()
	for i := o.N; i < len(inputs); i++ {
		in := inputs[i]
		done := make(chan struct{})
		go func() { // real-time watchdog: a program of a dozen calls that does not finish hangs
			select {
			case <-done:
			case <-time.After(30 * time.Second):
				fmt.Fprintf(os.Stderr, "C14 WATCHDOG: program %d did not finish within 30 s (deadlock?)\n", i)
				os.Exit(77)
			}
		}()
		part := c14Part{Index: i}
		rep := in.Repeat
		if rep <= 0 {
			rep = 1
		}
		for k := 0; k < rep; k++ {
			obs, err := runC14Program(o.Work, i, in)
			if err != nil {
				part.Err = err.Error()
				break
			}
			part.Obs = append(part.Obs, obs...)
		}
		close(done)
		bs, _ := json.Marshal(part)
		f.Write(append(bs, '\n'))
		f.Sync()
	}
}

// ---- parent ----

func runC14(o Opts) {
	out := NewOut(o.Out)
	defer out.Close()
	var inputs []c14Input
	corpusN := 0
	if o.Replay != "" {
		inputs = readInputs[c14Input](o.Replay)
		for i := range inputs {
			if inputs[i].Repeat == 0 {
				inputs[i].Repeat = 60 // the schedule is not an input: try the program many times
			}
		}
	} else {
		inputs = readCorpus[c14Input](o.Corpus)
		for i := range inputs {
			inputs[i].Recorded = nil
			if inputs[i].Repeat == 0 {
				inputs[i].Repeat = 5
			}
		}
		corpusN = len(inputs)
		n := 640
		if o.Tier == "thorough" {
			n = 5000
		}
		if o.N > 0 {
			n = o.N
		}
		for i := 0; i < n; i++ {
			inputs = append(inputs, genC14(o.Seed, i))
		}
	}
	// histories recorded earlier are re-decided verbatim (deterministic part of a replay)
	for _, in := range inputs {
		if in.Recorded != nil {
			rec := c14Record(in, in.Recorded, "recorded-history")
			out.Emit(rec)
		}
	}
	inFile := filepath.Join(o.Work, "c14_inputs.jsonl")
	{
		f, err := os.Create(inFile)
		if err != nil {
			fatal("create %s: %v", inFile, err)
		}
		for _, in := range inputs {
			in.Recorded = nil
			bs, _ := json.Marshal(in)
			f.Write(append(bs, '\n'))
		}
		f.Close()
	}
	partFile := filepath.Join(o.Work, "c14_part.jsonl")
	from, crashes := 0, 0
	var self []Record
	for from < len(inputs) && crashes < 6 {
		os.Remove(partFile)
		cmd := exec.Command(os.Args[0], "C14child", "-replay", inFile, "-out", partFile, "-work", o.Work, "-n", fmt.Sprint(from))
		cmd.Env = append(os.Environ(), "GORACE=halt_on_error=1 exitcode=66")
		var stderr bytes.Buffer
		cmd.Stderr = &stderr
		runErr := cmd.Run()
		next := from
		if f, err := os.Open(partFile); err == nil {
			dec := json.NewDecoder(f)
			for {
				var p c14Part
				if err := dec.Decode(&p); err != nil {
					break
				}
				in := inputs[p.Index]
				if p.Err != "" {
					out.Emit(Record{Kind: "program", Input: in, Key: fmt.Sprintf("failed-%d", p.Index),
						Direct: &DirectVerdict{OK: false, What: "cannot run the program: " + p.Err}})
				}
				for k := range p.Obs {
					rec := c14Record(in, &p.Obs[k], "history")
					if p.Index < corpusN {
						rec.Corpus = "corpus"
					}
					rec.ID = out.n
					out.Emit(rec)
					if len(self) < 6 && p.Index >= corpusN && (p.Index-corpusN)%9 == 4 {
						self = append(self, rec)
					}
				}
				next = p.Index + 1
			}
			f.Close()
		}
		if runErr == nil {
			break
		}
		// the child died while running program `next`
		crashes++
		what := "the harness child process died: " + runErr.Error()
		es := stderr.String()
		switch {
		case strings.Contains(es, "DATA RACE"):
			what = "data race reported by the race detector"
		case strings.Contains(es, "C14 WATCHDOG"):
			what = "the concurrent clients did not finish (deadlock)"
		case strings.Contains(es, "fatal error:"):
			what = "fatal runtime error"
		}
		if len(es) > 3000 {
			es = es[:3000]
		}
		if next < len(inputs) {
			out.Emit(Record{Kind: "program", Input: inputs[next], Key: fmt.Sprintf("crash-%d", next), Obs: map[string]string{"stderr": es},
				Tags: []string{"crash"}, Direct: &DirectVerdict{OK: false, What: what + " while running this program: " + firstLines(es, 12)}})
		}
		from = next + 1
	}
	os.Remove(partFile)
	// self-test: one observable of a real history altered so that no order can explain it
	for k, rec := range self {
		in := rec.Input.(c14Input)
		obs := *rec.Obs.(*c14Obs)
		obs.Calls = append([]c14CallObs(nil), obs.Calls...)
		switch k % 3 {
		case 0:
			obs.Gen += 1000
		case 1:
			done := false
			for i := range obs.Calls {
				if obs.Calls[i].Res.Class == "ver" {
					obs.Calls[i].Res.Ver += 50
					done = true
					break
				}
			}
			if !done {
				obs.Gen += 1000
			}
		case 2:
			obs.Live = append(append([]secDump(nil), obs.Live...), secDump{Name: []byte("zzzz"), Active: 1, Vers: []verVal{{Ver: 1, Val: 1}}})
		}
		rec.Coq = coqC14(in, &obs)
		rec.SelfTest, rec.SelfOf, rec.Obs = true, rec.ID, nil
		out.Emit(rec)
	}
}

func firstLines(s string, n int) string {
	ls := strings.Split(s, "\n")
	if len(ls) > n {
		ls = ls[:n]
	}
	return strings.Join(ls, " | ")
}
