package main

// C15 - updaters and watchers never miss the latest secret value.
// Drives the real setec.Store / setec.Updater inside a testing/synctest bubble against a
// scripted service; records a flat trace of what happened (in order), every builder call with
// the bytes it got, and every Close call; the kernel replays the trace on Client/Updater.v.

import (
	"context"
	"errors"
	"fmt"
	"io"
	"sort"
	"strings"
	"sync"
	"sync/atomic"
	"testing"
	"testing/synctest"
	"time"

	"github.com/tailscale/setec/client/setec"
	"github.com/tailscale/setec/types/api"
)

func init() { commands["C15"] = runC15 }

type c15Op struct {
	Op     string  `json:"op"` // put | act | cfail | refresh | grefresh | new | get | cget | err | look | read | lbegin | lend
	Name   int     `json:"name,omitempty"`
	Tok    int     `json:"tok,omitempty"`
	Upd    int     `json:"upd,omitempty"`
	OK     bool    `json:"ok,omitempty"`
	K      int     `json:"k,omitempty"`
	Closer bool    `json:"closer,omitempty"`
	Fail   bool    `json:"fail,omitempty"` // refresh: the request for Name fails
	Slot   int     `json:"slot,omitempty"` // lbegin/lend: which held caller
	New    bool    `json:"new,omitempty"`  // lbegin: the held caller is NewUpdater (else LookupSecret)
	Inner  []c15Op `json:"inner,omitempty"`
}

type c15Input struct {
	Allow    bool    `json:"allow"`
	Declared []int   `json:"declared"` // indices into c15Names, known at construction
	Server   []int   `json:"server"`   // further names that exist at the service
	Ops      []c15Op `json:"ops"`
}

var c15Names = []string{"a", "b", "k/c", "x", "y/z", "nowhere"}

func c15Value(tok int) []byte {
	if tok == 0 {
		return []byte{}
	}
	return []byte(fmt.Sprintf("value-%d", tok))
}

func c15TokOf(b []byte) int {
	if len(b) == 0 {
		return 0
	}
	var t int
	if _, err := fmt.Sscanf(string(b), "value-%d", &t); err != nil || string(c15Value(t)) != string(b) {
		return 999999 // unknown bytes: equals nothing the model knows
	}
	return t
}

// ---- the scripted service

type c15SV struct {
	ver uint32
	tok int
}

type c15Service struct {
	mu      sync.Mutex
	cur     map[string]c15SV          // the ACTIVE version of each secret
	hist    map[string]map[uint32]int // every version the secret ever had: number -> token (bytes never change)
	maxv    map[string]uint32
	rolled  int // answers of GetIfChanged that carried a LOWER version number than the client holds
	gate    chan struct{} // non-nil: the next GetIfChanged blocks until it is closed
	fail    string        // name whose poll request fails
	ans     map[string]string
	lookups []string // Coq terms of the answers to Get since last reset
	nget    int
}

var c15ErrService = errors.New("scripted service failure")

func (s *c15Service) remember(name string) {
	if s.hist == nil {
		s.hist, s.maxv = map[string]map[uint32]int{}, map[string]uint32{}
	}
	if sv, ok := s.cur[name]; ok {
		if s.hist[name] == nil {
			s.hist[name] = map[uint32]int{}
		}
		s.hist[name][sv.ver] = sv.tok
		if sv.ver > s.maxv[name] {
			s.maxv[name] = sv.ver
		}
	}
}

// put creates a new version (numbered above every version the secret ever had) and activates it
func (s *c15Service) put(name string, tok int) {
	s.mu.Lock()
	defer s.mu.Unlock()
	s.remember(name)
	s.cur[name] = c15SV{ver: s.maxv[name] + 1, tok: tok}
	s.remember(name)
}

func (s *c15Service) del(name string) {
	s.mu.Lock()
	defer s.mu.Unlock()
	delete(s.cur, name)
	if s.hist != nil {
		delete(s.hist, name)
		delete(s.maxv, name)
	}
}

// activate makes another EXISTING version of the secret the active one (a rollback when its
// number is lower, a roll-forward when higher); the version keeps its bytes.  Reports the direction.
func (s *c15Service) activate(name string, k int) int {
	s.mu.Lock()
	defer s.mu.Unlock()
	s.remember(name)
	sv, ok := s.cur[name]
	n := s.maxv[name]
	if !ok || n < 2 {
		return 0
	}
	target := uint32(1 + k%int(n))
	if target == sv.ver {
		target = target%n + 1
	}
	s.cur[name] = c15SV{ver: target, tok: s.hist[name][target]}
	if target < sv.ver {
		return -1
	}
	return 1
}

// ---- a cache whose Write fails when told to (the cache is outside the program: an input)

var c15ErrCache = errors.New("scripted cache write failure")

type c15Cache struct {
	mu       sync.Mutex
	data     []byte
	writes   int
	fails    int
	failNext int
}

func (c *c15Cache) Write(b []byte) error {
	c.mu.Lock()
	defer c.mu.Unlock()
	c.writes++
	if c.failNext > 0 {
		c.failNext--
		c.fails++
		return c15ErrCache
	}
	c.data = append([]byte(nil), b...)
	return nil
}

func (c *c15Cache) Read() ([]byte, error) {
	c.mu.Lock()
	defer c.mu.Unlock()
	return c.data, nil
}

func (c *c15Cache) counts() (int, int) {
	c.mu.Lock()
	defer c.mu.Unlock()
	return c.writes, c.fails
}

func (c *c15Cache) failNextWrites(k int) {
	c.mu.Lock()
	c.failNext = k
	c.mu.Unlock()
}

func (s *c15Service) Get(ctx context.Context, name string) (*api.SecretValue, error) {
	s.mu.Lock()
	defer s.mu.Unlock()
	s.nget++
	sv, ok := s.cur[name]
	if !ok {
		s.lookups = append(s.lookups, "(Some None)")
		return nil, api.ErrNotFound
	}
	s.lookups = append(s.lookups, fmt.Sprintf("(Some (Some (%d, %d)))", sv.ver, sv.tok))
	return &api.SecretValue{Value: c15Value(sv.tok), Version: api.SecretVersion(sv.ver)}, nil
}

func (s *c15Service) GetIfChanged(ctx context.Context, name string, old api.SecretVersion) (*api.SecretValue, error) {
	s.mu.Lock()
	g := s.gate
	s.gate = nil
	s.mu.Unlock()
	if g != nil {
		select {
		case <-g:
		case <-ctx.Done():
			return nil, ctx.Err()
		}
	}
	s.mu.Lock()
	defer s.mu.Unlock()
	if name == s.fail {
		s.ans[name] = fmt.Sprintf("%d, RErr", old)
		return nil, c15ErrService
	}
	sv, ok := s.cur[name]
	if !ok {
		s.ans[name] = fmt.Sprintf("%d, RErr", old)
		return nil, api.ErrNotFound
	}
	if api.SecretVersion(sv.ver) == old {
		s.ans[name] = fmt.Sprintf("%d, RNotChanged", old)
		return nil, api.ErrValueNotChanged
	}
	s.ans[name] = fmt.Sprintf("%d, (RValue %d %d)", old, sv.ver, sv.tok)
	if api.SecretVersion(sv.ver) < old {
		s.rolled++
	}
	return &api.SecretValue{Value: c15Value(sv.tok), Version: api.SecretVersion(sv.ver)}, nil
}

func (s *c15Service) beginPoll(fail string, gate chan struct{}) {
	s.mu.Lock()
	s.ans = map[string]string{}
	s.fail = fail
	s.gate = gate
	s.mu.Unlock()
}

func (s *c15Service) endPoll() string {
	s.mu.Lock()
	defer s.mu.Unlock()
	var parts []string
	for _, n := range sortedKeys(s.ans) {
		parts = append(parts, fmt.Sprintf("(%s, %s)", coqBytes([]byte(n)), s.ans[n]))
	}
	s.fail = ""
	s.gate = nil
	return coqList(parts)
}

// ---- values

type c15Closer struct {
	h        *c15H
	upd, seq int
}

func (c *c15Closer) Close() error {
	if c == nil {
		return nil // a nil value was installed (reported through what Get returns)
	}
	c.h.closed(c.upd, c.seq)
	return nil
}

type c15Plain struct{ upd, seq int }

type c15U interface {
	get() int
	err() bool
}
type c15UC struct{ u *setec.Updater[*c15Closer] }
type c15UP struct{ u *setec.Updater[c15Plain] }

func (x c15UC) get() int {
	v := x.u.Get()
	if v == nil {
		return 999
	}
	return v.seq
}
func (x c15UC) err() bool { return x.u.Err() != nil }
func (x c15UP) get() int  { return x.u.Get().seq }
func (x c15UP) err() bool { return x.u.Err() != nil }

var _ io.Closer = (*c15Closer)(nil)

// ---- the window between a lookup's unknown-name check and its flight (F8)
//
// lookupSecretInternal calls ctx.Deadline() after LookupSecret / lookupWatcher found the name unknown
// and before it joins or starts the single flight.  A context whose Deadline method blocks therefore
// holds a caller exactly in that window, with nothing but the exported API.

type c15GateCtx struct {
	context.Context
	gate    chan struct{}
	once    sync.Once
	entered atomic.Bool
}

func (g *c15GateCtx) Deadline() (time.Time, bool) {
	g.once.Do(func() { g.entered.Store(true); <-g.gate })
	return time.Time{}, false
}

type c15Late struct {
	name      string
	isNew     bool
	g         *c15GateCtx
	done      chan struct{}
	ok        bool // LookupSecret returned a handle
	overtaken bool // somebody else's lookup of the name completed while this caller was held
}

// ---- one scenario

type c15Item struct {
	s    string // Gallina term
	kind string
	a, b int
}

type c15H struct {
	cache  *c15Cache
	mu     sync.Mutex
	t      *testing.T
	st     *setec.Store
	svc    *c15Service
	ctx    context.Context
	ups    []c15U // by model index; nil = NewUpdater failed in the builder
	cnt    []int
	nextOK map[int]bool
	inner  map[int][]c15Op
	busy   map[int]bool
	gated  bool
	late   map[int]*c15Late
	tr     []c15Item
	blog   [][4]int
	closes map[int][]int
	tags   map[string]int
}

func (h *c15H) closed(upd, seq int) {
	h.mu.Lock()
	h.closes[upd] = append(h.closes[upd], seq)
	h.mu.Unlock()
}

func (h *c15H) tag(k string) {
	h.mu.Lock()
	h.tags[k]++
	h.mu.Unlock()
}

// the answer(s) the service gave to Get since resetLookups, as a term of type option (option (N * V))
func (h *c15H) resetLookups() {
	h.svc.mu.Lock()
	h.svc.lookups = nil
	h.svc.mu.Unlock()
}

func (h *c15H) lookTerm() string {
	h.svc.mu.Lock()
	look := "None"
	if len(h.svc.lookups) > 0 {
		look = h.svc.lookups[len(h.svc.lookups)-1]
	}
	nl := len(h.svc.lookups)
	h.svc.mu.Unlock()
	if nl > 1 {
		look = "(Some None)" // more than one request: cannot agree with the model
		h.tag("double-lookup")
	}
	return look
}

func (h *c15H) overtake(name string) {
	h.mu.Lock()
	defer h.mu.Unlock()
	for _, l := range h.late {
		if l.name == name {
			l.overtaken = true
		}
	}
}

func (h *c15H) emit(it c15Item) {
	h.mu.Lock()
	h.tr = append(h.tr, it)
	h.mu.Unlock()
}

func (h *c15H) live(sel int) int {
	var idx []int
	for i, u := range h.ups {
		if u != nil && !h.busy[i] {
			idx = append(idx, i)
		}
	}
	if len(idx) == 0 {
		return -1
	}
	return idx[sel%len(idx)]
}

// the builder of updater idx (called with u.mu held for Get; without for NewUpdater)
func (h *c15H) build(idx int, b []byte, first func()) (int, bool) {
	if first != nil {
		first()
	}
	h.mu.Lock()
	for len(h.cnt) <= idx {
		h.cnt = append(h.cnt, 0)
		h.ups = append(h.ups, nil)
	}
	seq := h.cnt[idx]
	h.cnt[idx]++
	ok := h.nextOK[idx]
	inner := h.inner[idx]
	delete(h.inner, idx)
	h.busy[idx] = true
	h.mu.Unlock()
	for _, op := range inner {
		h.exec(op, true)
	}
	h.mu.Lock()
	h.busy[idx] = false
	okI := 0
	if ok {
		okI = 1
	}
	h.blog = append(h.blog, [4]int{idx, seq, c15TokOf(b), okI})
	h.tr = append(h.tr, c15Item{s: fmt.Sprintf("TBuilt %d %s", idx, coqBool(ok)), kind: "built"})
	h.mu.Unlock()
	return seq, ok
}

var c15ErrBuild = errors.New("scripted builder failure")

// what Refresh returned (0 no error, 1 the poll failed, 2 the cache's write error), how many cache
// writes its apply phase made, and whether the cache refused one
func (h *c15H) pollResult(err error, w0, f0 int) string {
	w1, f1 := h.cache.counts()
	cls := 0
	if err != nil {
		cls = 1
		if errors.Is(err, c15ErrCache) {
			cls = 2
		}
	}
	if f1 > f0 {
		h.tag("poll-with-failing-cache")
		if cls == 2 && w1 > w0 {
			h.tag("cache-fault-on-installing-poll")
		}
	}
	return fmt.Sprintf("%d %d %s", cls, w1-w0, coqBool(f1 > f0))
}

func (h *c15H) exec(op c15Op, nested bool) {
	name := c15Names[((op.Name%len(c15Names))+len(c15Names))%len(c15Names)]
	switch op.Op {
	case "put":
		if op.Tok < 0 { // the secret is deleted at the service
			h.svc.del(name)
		} else {
			h.svc.put(name, op.Tok)
		}
		h.tag("put")
	case "act":
		// the service activates another existing version: a rollback (lower number) or a roll-forward
		switch h.svc.activate(name, op.K) {
		case -1:
			h.tag("service-rollback")
		case 1:
			h.tag("service-rollforward")
		}
	case "cfail":
		// the next 1-3 cache writes fail
		h.cache.failNextWrites(1 + op.K%3)
		h.tag("cache-fault-armed")
	case "refresh":
		if h.gated {
			return // would join the gated poll and wait for the gate
		}
		fail := ""
		if op.Fail {
			fail = name
		}
		h.svc.beginPoll(fail, nil)
		w0, f0 := h.cache.counts()
		err := h.st.Refresh(h.ctx)
		ans := h.svc.endPoll()
		h.emit(c15Item{s: fmt.Sprintf("TRefresh %s %s", ans, h.pollResult(err, w0, f0)), kind: "refresh"})
		h.tag("refresh")
		if strings.Contains(ans, "RValue") && !strings.Contains(ans, "RErr") {
			h.tag("refresh-installing")
		}
		if nested {
			h.tag("install-during-build")
		}
	case "grefresh":
		if nested || h.gated {
			return
		}
		gate := make(chan struct{})
		h.svc.beginPoll("", gate)
		done := make(chan error, 1)
		go func() { done <- h.st.Refresh(h.ctx) }()
		synctest.Wait()
		h.gated = true
		h.emit(c15Item{s: "TSnap", kind: "snap"})
		for _, in := range op.Inner {
			h.exec(in, false)
		}
		h.gated = false
		w0, f0 := h.cache.counts()
		close(gate)
		err := <-done
		ans := h.svc.endPoll()
		h.emit(c15Item{s: fmt.Sprintf("TPoll %s %s", ans, h.pollResult(err, w0, f0)), kind: "poll"})
		h.tag("gated-refresh")
	case "new":
		h.guarded(func() { h.doNew(h.ctx, name, op, nested, nil) })
	case "look":
		if nested {
			return
		}
		h.guarded(func() {
			h.resetLookups()
			f, err := h.st.LookupSecret(h.ctx, name)
			ok := err == nil && f != nil
			h.emit(c15Item{s: fmt.Sprintf("TLook %s %s %s", coqBytes([]byte(name)), h.lookTerm(), coqBool(ok)), kind: "look"})
			if ok {
				h.overtake(name)
			}
			h.tag("look")
		})
	case "read":
		tok := "None"
		func() {
			defer func() { recover() }() // Secret panics for an unknown name when lookups are off
			if f := h.st.Secret(name); f != nil {
				tok = fmt.Sprintf("(Some %d)", c15TokOf(f()))
			}
		}()
		h.emit(c15Item{s: fmt.Sprintf("TRead %s %s", coqBytes([]byte(name)), tok), kind: "read"})
		h.tag("read")
	case "lbegin":
		// a caller that is held between its unknown-name check and its flight
		if nested || h.gated || h.late[op.Slot] != nil {
			return
		}
		g := &c15GateCtx{Context: h.ctx, gate: make(chan struct{})}
		l := &c15Late{name: name, isNew: op.New, g: g, done: make(chan struct{})}
		h.resetLookups()
		if op.New {
			lop := op
			lop.Inner = nil
			go func() { defer close(l.done); h.doNew(g, name, lop, false, l) }()
		} else {
			go func() {
				defer close(l.done)
				f, err := h.st.LookupSecret(g, name)
				l.ok = err == nil && f != nil
			}()
		}
		synctest.Wait()
		select {
		case <-l.done:
			// it never reached the window (name known, or lookups refused): an ordinary call
			if !op.New {
				h.emit(c15Item{s: fmt.Sprintf("TLook %s %s %s", coqBytes([]byte(name)), h.lookTerm(), coqBool(l.ok)), kind: "look"})
			}
			h.tag("late-not-held")
		default:
			if !g.entered.Load() {
				panic("C15 harness: a lookup caller is blocked outside the window")
			}
			h.late[op.Slot] = l
			h.emit(c15Item{s: fmt.Sprintf("TLateBegin %s", coqBytes([]byte(name))), kind: "latebegin"})
			h.tag("late-held")
		}
	case "lend":
		l := h.late[op.Slot]
		if l == nil || nested || h.gated {
			return
		}
		delete(h.late, op.Slot)
		h.resetLookups()
		close(l.g.gate)
		<-l.done
		if !l.isNew {
			h.emit(c15Item{s: fmt.Sprintf("TLate %s %s %s", coqBytes([]byte(l.name)), h.lookTerm(), coqBool(l.ok)), kind: "late"})
			if l.ok {
				h.overtake(l.name)
			}
		}
		h.tag("late-finished")
		if l.overtaken {
			h.tag("late-on-known")
		}
	case "get", "cget":
		i := h.live(op.Upd)
		if i < 0 {
			return
		}
		h.mu.Lock()
		h.nextOK[i] = op.OK
		if !nested && op.Op == "get" {
			h.inner[i] = op.Inner
		}
		h.mu.Unlock()
		u := h.ups[i]
		h.emit(c15Item{s: fmt.Sprintf("TGet %d", i), kind: "get"})
		k := 1
		if op.Op == "cget" {
			k = 2 + op.K%3
		}
		res := make([]int, k)
		if k == 1 {
			res[0] = u.get()
		} else {
			var wg sync.WaitGroup
			for j := 0; j < k; j++ {
				wg.Add(1)
				go func() { defer wg.Done(); res[j] = u.get() }()
			}
			wg.Wait()
			h.tag("concurrent-get")
		}
		e := u.err()
		h.mu.Lock()
		delete(h.inner, i)
		h.mu.Unlock()
		for j := 0; j < k; j++ {
			h.emit(c15Item{s: fmt.Sprintf("TGot %d %d %s", i, res[j], coqBool(e)), kind: "got", a: i, b: res[j]})
		}
		h.tag("get")
	case "err":
		i := h.live(op.Upd)
		if i < 0 {
			return
		}
		e := h.ups[i].err()
		h.emit(c15Item{s: fmt.Sprintf("TErr %d %s", i, coqBool(e)), kind: "err"})
	}
}

// guarded runs a lookup-capable call while other callers are held in the window.  In the code as it
// is, a held caller owns nothing, so the call completes.  An implementation in which the held caller
// already owned the flight would make this call join it and wait for the gate: that is turned into a
// reported failure with the input as replay instead of a deadlocked bubble.
func (h *c15H) guarded(f func()) {
	if len(h.late) == 0 {
		f()
		return
	}
	done := make(chan struct{})
	var perr any
	go func() {
		defer close(done)
		defer func() { perr = recover() }()
		f()
	}()
	synctest.Wait()
	select {
	case <-done:
		if perr != nil {
			panic(perr)
		}
		return
	default:
	}
	var ls []*c15Late
	for _, l := range h.late {
		ls = append(ls, l)
	}
	for _, l := range ls {
		close(l.g.gate)
	}
	<-done
	for _, l := range ls {
		<-l.done
	}
	h.late = map[int]*c15Late{}
	panic("a lookup of the name blocked behind a caller that is held before its flight starts")
}

// NewUpdater(ctx, name); late != nil: the call is made by a held caller (ctx is its gate context)
// newUpdaterReleased calls setec.NewUpdater the way set-up code usually does - with a context that is released as
// soon as NewUpdater has returned (`ctx, cancel := context.WithTimeout(...); defer cancel()`): the context governs
// the initial lookup and build only, so the updater must keep being notified of later installs after it ended.
func newUpdaterReleased[T any](ctx context.Context, st *setec.Store, name string, newValue func([]byte) (T, error)) (*setec.Updater[T], error) {
	uctx, cancel := context.WithCancel(ctx)
	u, err := setec.NewUpdater(uctx, st, name, newValue)
	cancel()
	return u, err
}

func (h *c15H) doNew(ctx context.Context, name string, op c15Op, nested bool, late *c15Late) {
	// the model index of the updater is its position in registration order; a held caller registers
	// only after its release, so its index is fixed when its builder is first called
	idx := -1
	assign := func() {
		if idx >= 0 {
			return
		}
		h.mu.Lock()
		idx = len(h.cnt)
		h.nextOK[idx] = op.OK
		if !nested && late == nil {
			h.inner[idx] = op.Inner
		}
		h.mu.Unlock()
	}
	if late == nil {
		assign()
		h.resetLookups()
	}
	emitted := false
	first := func() {
		if emitted {
			return
		}
		emitted = true
		if late != nil && late.g.entered.Load() {
			h.emit(c15Item{s: fmt.Sprintf("TLateNew %s %s %s", coqBytes([]byte(name)), coqBool(op.Closer), h.lookTerm()), kind: "latenew"})
			return
		}
		h.emit(c15Item{s: fmt.Sprintf("TNew %s %s %s", coqBytes([]byte(name)), coqBool(op.Closer), h.lookTerm()), kind: "new"})
	}
	var u c15U
	var err error
	if op.Closer {
		var uu *setec.Updater[*c15Closer]
		uu, err = newUpdaterReleased(ctx, h.st, name, func(b []byte) (*c15Closer, error) {
			assign()
			seq, ok := h.build(idx, b, first)
			if !ok {
				return nil, c15ErrBuild
			}
			return &c15Closer{h: h, upd: idx, seq: seq}, nil
		})
		if err == nil {
			u = c15UC{uu}
		}
	} else {
		var uu *setec.Updater[c15Plain]
		uu, err = newUpdaterReleased(ctx, h.st, name, func(b []byte) (c15Plain, error) {
			assign()
			seq, ok := h.build(idx, b, first)
			if !ok {
				return c15Plain{}, c15ErrBuild
			}
			return c15Plain{upd: idx, seq: seq}, nil
		})
		if err == nil {
			u = c15UP{uu}
		}
	}
	first() // no builder call happened: NewUpdater was refused before
	h.mu.Lock()
	if idx >= 0 {
		delete(h.inner, idx)
		if len(h.ups) > idx {
			h.ups[idx] = u
		}
	}
	h.tr = append(h.tr, c15Item{s: fmt.Sprintf("TNewDone %s", coqBool(err == nil)), kind: "newdone"})
	h.mu.Unlock()
	h.tag("new")
	if h.gated {
		h.tag("new-while-poll-in-flight")
	}
	if err != nil {
		h.tag("new-failed")
	} else {
		h.overtake(name)
	}
}

type c15Obs struct {
	Trace  []string `json:"trace"`
	Blog   [][4]int `json:"builder_calls"` // updater, call, token, ok
	Closes [][]int  `json:"closes"`        // per updater: Close calls in order (call number of the value)
	Panic  string   `json:"panic,omitempty"`
}

func c15Render(in c15Input, tr []c15Item, blog [][4]int, closes [][]int) string {
	var init []string
	for _, d := range in.Declared {
		init = append(init, fmt.Sprintf("(%s, 1, %d)", coqBytes([]byte(c15Names[d])), 100+d))
	}
	// init_store folds upd: order irrelevant
	items := make([]string, len(tr))
	for i, it := range tr {
		items[i] = it.s
	}
	bl := make([]string, len(blog))
	for i, b := range blog {
		bl[i] = fmt.Sprintf("(%d%%nat, %d%%nat, %d, %s)", b[0], b[1], b[2], coqBool(b[3] == 1))
	}
	cl := make([]string, len(closes))
	for i, c := range closes {
		ps := make([]string, len(c))
		for j, x := range c {
			ps[j] = fmt.Sprintf("%d%%nat", x)
		}
		cl[i] = coqList(ps)
	}
	return fmt.Sprintf("Case15 %s %s %s %s %s", coqBool(in.Allow), coqList(init), coqList(items), coqList(bl), coqList(cl))
}

func c15Run(t *testing.T, in c15Input) (rec Record, tr []c15Item, blog [][4]int, closes [][]int) {
	h := &c15H{t: t, nextOK: map[int]bool{}, inner: map[int][]c15Op{}, busy: map[int]bool{}, closes: map[int][]int{}, tags: map[string]int{}, late: map[int]*c15Late{}, cache: &c15Cache{}}
	var panicked string
	bubble(t, func(t *testing.T) {
		svc := &c15Service{cur: map[string]c15SV{}, ans: map[string]string{}}
		var declared []string
		for _, d := range in.Declared {
			svc.cur[c15Names[d]] = c15SV{ver: 1, tok: 100 + d}
			declared = append(declared, c15Names[d])
		}
		for _, d := range in.Server {
			if _, ok := svc.cur[c15Names[d]]; !ok {
				svc.cur[c15Names[d]] = c15SV{ver: 1, tok: 200 + d}
			}
		}
		ctx, cancel := context.WithCancel(context.Background())
		defer cancel()
		st, err := newStoreReleased(ctx, setec.StoreConfig{Client: svc, Secrets: declared, AllowLookup: in.Allow,
			PollInterval: -1, Cache: h.cache, Logf: func(string, ...any) {}})
		if err != nil {
			panicked = "NewStore: " + err.Error()
			return
		}
		defer st.Close()
		h.st, h.svc, h.ctx = st, svc, ctx
		func() {
			defer func() {
				if r := recover(); r != nil {
					panicked = fmt.Sprint(r)
				}
				// never leave a held caller behind (the bubble must drain)
				for _, l := range h.late {
					close(l.g.gate)
					<-l.done
				}
			}()
			for _, op := range in.Ops {
				h.exec(op, false)
			}
			// callers still held at the end are released in slot order (the shrinker may have dropped a lend)
			var slots []int
			for sl := range h.late {
				slots = append(slots, sl)
			}
			sort.Ints(slots)
			for _, sl := range slots {
				h.exec(c15Op{Op: "lend", Slot: sl}, false)
			}
		}()
	})
	n := len(h.cnt)
	closes = make([][]int, n)
	for i := 0; i < n; i++ {
		closes[i] = h.closes[i]
	}
	tr, blog = h.tr, h.blog
	obs := c15Obs{Blog: blog, Closes: closes, Panic: panicked}
	for _, it := range tr {
		obs.Trace = append(obs.Trace, it.s)
	}
	var tags []string
	for k := range h.tags {
		tags = append(tags, k)
	}
	sort.Strings(tags)
	coalesced, rebuilt, failed := false, 0, 0
	for _, b := range blog {
		if b[1] > 0 {
			rebuilt++
		}
		if b[3] == 0 {
			failed++
		}
	}
	if h.tags["refresh-installing"] >= 2 {
		coalesced = true
	}
	if failed > 0 {
		tags = append(tags, "builder-failure")
	}
	if h.svc != nil && h.svc.rolled > 0 {
		tags = append(tags, "rollback-seen-by-poll")
		if h.svc.rolled > 1 {
			tags = append(tags, "several-rollbacks-seen")
		}
	}
	nclose := 0
	for _, c := range closes {
		nclose += len(c)
	}
	if nclose > 0 {
		tags = append(tags, "close-observed")
	}
	rec = Record{Kind: "scenario", Input: in, Obs: obs, Key: fmt.Sprintf("%v", obs.Trace),
		Nontrivial: (rebuilt >= 1 && coalesced) || h.tags["late-on-known"] > 0 ||
			(rebuilt >= 1 && (h.tags["cache-fault-on-installing-poll"] > 0 || (h.svc != nil && h.svc.rolled > 0))), Tags: tags,
		Coq: c15Render(in, tr, blog, closes)}
	if panicked != "" {
		rec.Direct = &DirectVerdict{OK: false, What: "panic or construction failure: " + panicked}
	}
	return
}

// ---- generation

func c15Gen(seed uint64, k int) c15Input {
	r := NewRand(seed, uint64(1500+k))
	in := c15Input{Allow: r.IntN(4) != 0}
	nd := 1 + r.IntN(3)
	for i := 0; i < nd; i++ {
		in.Declared = append(in.Declared, i)
	}
	in.Server = []int{3, 4}
	tok := 1
	nextTok := func() int {
		tok++
		if tok == 4 && r.IntN(3) == 0 {
			return 0 // the empty value (once: two versions of a secret never carry equal bytes, so an
			// implementation that skips notifications for unchanged bytes is not distinguished)
		}
		return tok
	}
	pickName := func() int {
		switch x := r.IntN(10); {
		case x < 6:
			return r.IntN(nd)
		case x < 9:
			return 3 + r.IntN(2)
		default:
			return 5
		}
	}
	newOp := func(allowInner bool) c15Op {
		op := c15Op{Op: "new", Name: pickName(), OK: r.IntN(6) != 0, Closer: r.IntN(4) != 0}
		if allowInner && r.IntN(3) == 0 {
			n := pickName()
			op.Inner = []c15Op{{Op: "put", Name: op.Name, Tok: nextTok()}, {Op: "refresh"}}
			if r.IntN(3) == 0 {
				op.Inner = append(op.Inner, c15Op{Op: "put", Name: n, Tok: nextTok()}, c15Op{Op: "refresh"})
			}
		}
		return op
	}
	getOp := func(allowInner bool) c15Op {
		op := c15Op{Op: "get", Upd: r.IntN(8), OK: r.IntN(5) != 0}
		if r.IntN(5) == 0 {
			op.Op = "cget"
			op.K = r.IntN(3)
		} else if allowInner && r.IntN(5) == 0 {
			op.Inner = []c15Op{{Op: "put", Name: pickName(), Tok: nextTok()}, {Op: "refresh"}, {Op: "get", Upd: r.IntN(8), OK: true}}
		}
		return op
	}
	nu := 1 + r.IntN(3)
	for i := 0; i < nu; i++ {
		op := newOp(true)
		if i == 0 {
			op.Name, op.OK = r.IntN(nd), true
			for j := range op.Inner {
				if j == 0 {
					op.Inner[j].Name = op.Name
				}
			}
		} else if r.IntN(2) == 0 {
			op.Name = in.Ops[0].Name // several updaters on one secret
		}
		in.Ops = append(in.Ops, op)
	}
	// a second stream decides where the service ROLLS BACK (activates an older version again) and
	// where the cache refuses a write, so that the scenarios of the first stream stay what they were
	r2 := NewRand(seed, uint64(2500+k))
	rounds := 2 + r.IntN(5)
	for q := 0; q < rounds; q++ {
		ninst := r.IntN(4) // 0..3 installs between Gets
		for j := 0; j < ninst; j++ {
			np := 1 + r.IntN(2)
			for p := 0; p < np; p++ {
				in.Ops = append(in.Ops, c15Op{Op: "put", Name: pickName(), Tok: nextTok()})
			}
			if r2.IntN(4) == 0 {
				in.Ops = append(in.Ops, c15Op{Op: "act", Name: in.Ops[0].Name, K: r2.IntN(5)})
				if r2.IntN(3) == 0 {
					in.Ops = append(in.Ops, c15Op{Op: "act", Name: r2.IntN(nd), K: r2.IntN(5)})
				}
			}
			if r2.IntN(8) == 0 {
				in.Ops = append(in.Ops, c15Op{Op: "cfail", K: r2.IntN(3)})
			}
			switch x := r.IntN(10); {
			case x < 6:
				in.Ops = append(in.Ops, c15Op{Op: "refresh"})
			case x < 7:
				in.Ops = append(in.Ops, c15Op{Op: "refresh", Fail: true, Name: r.IntN(nd)})
			default:
				g := c15Op{Op: "grefresh"}
				for m := r.IntN(3); m >= 0; m-- {
					switch r.IntN(4) {
					case 0:
						g.Inner = append(g.Inner, newOp(false))
					case 1:
						g.Inner = append(g.Inner, getOp(false))
					case 2:
						g.Inner = append(g.Inner, c15Op{Op: "put", Name: pickName(), Tok: nextTok()})
					default:
						g.Inner = append(g.Inner, c15Op{Op: "err", Upd: r.IntN(8)})
					}
				}
				in.Ops = append(in.Ops, g)
			}
		}
		if r.IntN(4) == 0 {
			in.Ops = append(in.Ops, newOp(true))
		}
		ng := 1 + r.IntN(4)
		for j := 0; j < ng; j++ {
			in.Ops = append(in.Ops, getOp(true))
			if r.IntN(4) == 0 {
				in.Ops = append(in.Ops, c15Op{Op: "err", Upd: r.IntN(8)})
			}
		}
	}
	return in
}

// scenarios around ROLLBACKS at the service (an older, lower-numbered version activated again, with
// the bytes it always had; several in a row; forwards again; racing a gated poll) and around a CACHE
// whose Write fails (on the flush of the poll that installs, on a lookup's flush, intermittently).
// Neither may cost an updater a version: every poll that installs wakes the watchers.
func c15GenRoll(seed uint64, k int) c15Input {
	r := NewRand(seed, uint64(3500+k))
	in := c15Input{Allow: r.IntN(5) != 0, Server: []int{3, 4}}
	nd := 1 + r.IntN(2)
	for i := 0; i < nd; i++ {
		in.Declared = append(in.Declared, i)
	}
	tok := 1
	nextTok := func() int { tok++; return tok }
	n0 := r.IntN(nd)
	other := func() int {
		if r.IntN(3) == 0 {
			return 3
		}
		return r.IntN(nd)
	}
	gets := func() {
		for u := 0; u < 3; u++ {
			if r.IntN(4) != 0 {
				op := c15Op{Op: "get", Upd: u, OK: r.IntN(7) != 0}
				if r.IntN(6) == 0 {
					op.Op, op.K = "cget", r.IntN(3)
				}
				in.Ops = append(in.Ops, op)
			}
		}
		if r.IntN(3) == 0 {
			in.Ops = append(in.Ops, c15Op{Op: "err", Upd: r.IntN(3)})
		}
	}
	// updaters: 1-2 on n0, sometimes one on an undeclared name (its lookup's flush may be refused)
	in.Ops = append(in.Ops, c15Op{Op: "new", Name: n0, OK: true, Closer: r.IntN(3) != 0})
	if r.IntN(2) == 0 {
		in.Ops = append(in.Ops, c15Op{Op: "new", Name: n0, OK: true, Closer: r.IntN(3) != 0})
	}
	if r.IntN(3) == 0 {
		if r.IntN(2) == 0 {
			in.Ops = append(in.Ops, c15Op{Op: "cfail", K: 0})
		}
		in.Ops = append(in.Ops, c15Op{Op: "new", Name: 3, OK: true, Closer: true})
	}
	// a history of 2-4 versions of n0 (and one more of the other name), polled one by one or at the end
	nv := 1 + r.IntN(3)
	for i := 0; i < nv; i++ {
		in.Ops = append(in.Ops, c15Op{Op: "put", Name: n0, Tok: nextTok()})
		if r.IntN(3) != 0 || i == nv-1 {
			in.Ops = append(in.Ops, c15Op{Op: "refresh"})
		}
	}
	if r.IntN(2) == 0 {
		in.Ops = append(in.Ops, c15Op{Op: "put", Name: other(), Tok: nextTok()}, c15Op{Op: "refresh"})
	}
	gets()
	steps := 2 + r.IntN(4)
	for q := 0; q < steps; q++ {
		// the service moves: rollback / forward (1-3 activations in a row without a poll between), or a new version
		switch x := r.IntN(10); {
		case x < 7:
			for m := 1 + r.IntN(3); m > 0; m-- {
				in.Ops = append(in.Ops, c15Op{Op: "act", Name: n0, K: r.IntN(6)})
			}
		case x < 8:
			in.Ops = append(in.Ops, c15Op{Op: "act", Name: other(), K: r.IntN(6)})
		default:
			in.Ops = append(in.Ops, c15Op{Op: "put", Name: n0, Tok: nextTok()})
		}
		// the cache refuses the next write(s)
		switch x := r.IntN(10); {
		case x < 4:
			in.Ops = append(in.Ops, c15Op{Op: "cfail", K: 0}) // exactly the next flush
		case x < 5:
			in.Ops = append(in.Ops, c15Op{Op: "cfail", K: 1 + r.IntN(2)}) // intermittently: the next 2-3
		}
		// the poll: plain, or gated with the service moving again / a Get / a new updater inside
		if r.IntN(4) == 0 {
			g := c15Op{Op: "grefresh"}
			for m := r.IntN(3); m >= 0; m-- {
				switch r.IntN(5) {
				case 0, 1:
					g.Inner = append(g.Inner, c15Op{Op: "act", Name: n0, K: r.IntN(6)})
				case 2:
					g.Inner = append(g.Inner, c15Op{Op: "get", Upd: r.IntN(3), OK: true})
				case 3:
					g.Inner = append(g.Inner, c15Op{Op: "new", Name: n0, OK: true, Closer: r.IntN(2) == 0})
				default:
					g.Inner = append(g.Inner, c15Op{Op: "put", Name: n0, Tok: nextTok()})
				}
			}
			in.Ops = append(in.Ops, g)
		} else {
			in.Ops = append(in.Ops, c15Op{Op: "refresh"})
		}
		if r.IntN(2) == 0 {
			in.Ops = append(in.Ops, c15Op{Op: "refresh"}) // a later poll: the service answers not-changed
		}
		if r.IntN(5) == 0 {
			in.Ops = append(in.Ops, c15Op{Op: "look", Name: 4}) // a lookup whose flush may be refused
		}
		gets()
		if r.IntN(3) == 0 {
			in.Ops = append(in.Ops, c15Op{Op: "read", Name: n0})
		}
	}
	in.Ops = append(in.Ops, c15Op{Op: "refresh"})
	gets()
	return in
}

// an Updater whose watcher is registered THROUGH THE LOOKUP (the name is not known to the store when
// NewUpdater is called), then a new version at the service, a poll, Get: the registration made on the lookup
// path must be woken like any other.  Every way the name can become known: by this very NewUpdater; by an
// earlier LookupSecret; by another caller's lookup that overtakes this registration's (held) one; declared.
func c15GenLookupWatch(seed uint64, k int) c15Input {
	r := NewRand(seed, uint64(4500+k))
	in := c15Input{Allow: true, Declared: []int{0}, Server: []int{3, 4}}
	tok := 1
	nextTok := func() int { tok++; return tok }
	n := 3 + r.IntN(2)
	closer := func() bool { return r.IntN(3) != 0 }
	switch k % 5 {
	case 0: // looked up by this very registration
		in.Ops = append(in.Ops, c15Op{Op: "new", Name: n, OK: true, Closer: closer()})
	case 1: // looked up earlier
		in.Ops = append(in.Ops, c15Op{Op: "look", Name: n}, c15Op{Op: "new", Name: n, OK: true, Closer: closer()})
	case 2: // this registration's lookup is held; another NewUpdater's lookup installs the name meanwhile
		in.Ops = append(in.Ops, c15Op{Op: "lbegin", Name: n, Slot: 0, New: true, OK: true, Closer: closer()},
			c15Op{Op: "new", Name: n, OK: true, Closer: closer()}, c15Op{Op: "lend", Slot: 0})
	case 3: // ... or a LookupSecret does
		in.Ops = append(in.Ops, c15Op{Op: "lbegin", Name: n, Slot: 0, New: true, OK: true, Closer: closer()},
			c15Op{Op: "look", Name: n}, c15Op{Op: "lend", Slot: 0})
	default: // declared (the other path), next to one made by lookup
		in.Ops = append(in.Ops, c15Op{Op: "new", Name: 0, OK: true, Closer: closer()}, c15Op{Op: "new", Name: n, OK: true, Closer: closer()})
	}
	if r.IntN(3) == 0 {
		in.Ops = append(in.Ops, c15Op{Op: "new", Name: n, OK: true, Closer: closer()}) // a second updater on the now known name
	}
	rounds := 1 + r.IntN(3)
	for q := 0; q < rounds; q++ {
		in.Ops = append(in.Ops, c15Op{Op: "put", Name: n, Tok: nextTok()})
		if k%5 == 4 || r.IntN(3) == 0 {
			in.Ops = append(in.Ops, c15Op{Op: "put", Name: 0, Tok: nextTok()})
		}
		in.Ops = append(in.Ops, c15Op{Op: "refresh"})
		for u := 0; u < 3; u++ {
			in.Ops = append(in.Ops, c15Op{Op: "get", Upd: u, OK: r.IntN(8) != 0})
		}
		if r.IntN(2) == 0 {
			in.Ops = append(in.Ops, c15Op{Op: "read", Name: n})
		}
	}
	return in
}

// two or three NewUpdater calls on ONE name overlapping in time: the first one's builder is running (it performs the
// others from inside, and possibly a version change + poll) while the others register and finish; builders fail or
// succeed in every order.  A failed NewUpdater must not disturb the others: afterwards versions change, polls run and
// every surviving updater must keep following.
func c15GenOverlapNew(seed uint64, k int) c15Input {
	r := NewRand(seed, uint64(5500+k))
	in := c15Input{Allow: true, Declared: []int{0, 1}, Server: []int{3, 4}}
	tok := 1
	nextTok := func() int { tok++; return tok }
	n := []int{0, 0, 1, 3}[r.IntN(4)] // mostly a declared name; sometimes one that the first call looks up
	closer := func() bool { return r.IntN(3) != 0 }
	okA, okB, okC := k%2 == 0, (k/2)%2 == 0, (k/4)%2 == 0
	three := (k/8)%2 == 0
	if r.IntN(3) == 0 {
		in.Ops = append(in.Ops, c15Op{Op: "new", Name: n, OK: true, Closer: closer()}) // somebody was there before
	}
	a := c15Op{Op: "new", Name: n, OK: okA, Closer: closer()}
	a.Inner = append(a.Inner, c15Op{Op: "new", Name: n, OK: okB, Closer: closer()})
	if r.IntN(2) == 0 {
		a.Inner = append(a.Inner, c15Op{Op: "put", Name: n, Tok: nextTok()}, c15Op{Op: "refresh"})
	}
	if three {
		a.Inner = append(a.Inner, c15Op{Op: "new", Name: n, OK: okC, Closer: closer()})
	}
	if r.IntN(3) == 0 {
		a.Inner = append(a.Inner, c15Op{Op: "get", Upd: r.IntN(4), OK: true})
	}
	in.Ops = append(in.Ops, a)
	if r.IntN(4) == 0 {
		in.Ops = append(in.Ops, c15Op{Op: "new", Name: n, OK: r.IntN(3) != 0, Closer: closer()}) // and one afterwards
	}
	rounds := 1 + r.IntN(3)
	for q := 0; q < rounds; q++ {
		in.Ops = append(in.Ops, c15Op{Op: "put", Name: n, Tok: nextTok()})
		if r.IntN(3) == 0 {
			in.Ops = append(in.Ops, c15Op{Op: "put", Name: 1 - n%2, Tok: nextTok()})
		}
		in.Ops = append(in.Ops, c15Op{Op: "refresh"})
		for u := 0; u < 4; u++ {
			in.Ops = append(in.Ops, c15Op{Op: "get", Upd: u, OK: r.IntN(8) != 0})
		}
		if r.IntN(3) == 0 {
			in.Ops = append(in.Ops, c15Op{Op: "err", Upd: r.IntN(4)})
		}
	}
	return in
}

// scenarios around the window between a lookup's unknown-name check and its flight (F8): one or two
// callers are held in the window, somebody else may complete a lookup of the same name (and create
// updaters on it), the service may activate a new version, the held callers are released in either
// order, then reads, polls and Gets.
func c15GenLate(seed uint64, k int) c15Input {
	r := NewRand(seed, uint64(915000+k))
	in := c15Input{Allow: r.IntN(20) != 0}
	nd := 1 + r.IntN(2)
	for i := 0; i < nd; i++ {
		in.Declared = append(in.Declared, i)
	}
	in.Server = []int{3, 4}
	tok := 1
	nextTok := func() int { tok++; return tok }
	x := 3 + r.IntN(2) // the name under lookup: exists at the service, not declared
	switch r.IntN(20) {
	case 0, 1:
		x = 5 // exists nowhere: every flight fails
	case 2:
		x = 0 // declared: nobody is ever held
	}
	add := func(ops ...c15Op) { in.Ops = append(in.Ops, ops...) }
	if r.IntN(3) == 0 { // an updater on a declared secret, for company
		add(c15Op{Op: "new", Name: 0, OK: true, Closer: r.IntN(2) == 0})
	}
	add(c15Op{Op: "lbegin", Name: x, Slot: 0, New: r.IntN(3) == 0, OK: r.IntN(8) != 0, Closer: r.IntN(2) == 0})
	two := r.IntN(5) < 2
	if two {
		add(c15Op{Op: "lbegin", Name: x, Slot: 1, New: r.IntN(2) == 0, OK: true, Closer: r.IntN(2) == 0})
	}
	// who overtakes the held caller(s)
	switch y := r.IntN(20); {
	case y < 11:
		add(c15Op{Op: "new", Name: x, OK: r.IntN(10) != 0, Closer: r.IntN(4) != 0})
		if r.IntN(3) == 0 {
			add(c15Op{Op: "new", Name: x, OK: true, Closer: r.IntN(2) == 0})
		}
	case y < 16:
		add(c15Op{Op: "look", Name: x})
		if r.IntN(2) == 0 {
			add(c15Op{Op: "new", Name: x, OK: true, Closer: r.IntN(2) == 0})
		}
	default: // nobody: the held caller's flight is the one that installs
	}
	if r.IntN(4) == 0 {
		add(c15Op{Op: "read", Name: x})
	}
	// the service moves on (or not) while the caller is held
	if r.IntN(10) < 7 {
		add(c15Op{Op: "put", Name: x, Tok: nextTok()})
		if r.IntN(5) == 0 {
			add(c15Op{Op: "refresh"}, c15Op{Op: "get", Upd: r.IntN(4), OK: true})
			if r.IntN(2) == 0 {
				add(c15Op{Op: "put", Name: x, Tok: nextTok()})
			}
		}
	}
	if r.IntN(10) == 0 { // the secret disappears at the service: the late flight fails
		in.Ops = append(in.Ops, c15Op{Op: "put", Name: x, Tok: -1})
	}
	// release: which held caller goes first
	if two && r.IntN(2) == 0 {
		add(c15Op{Op: "lend", Slot: 1})
		if r.IntN(3) == 0 {
			add(c15Op{Op: "put", Name: x, Tok: nextTok()})
		}
		add(c15Op{Op: "lend", Slot: 0})
	} else {
		add(c15Op{Op: "lend", Slot: 0})
		if two {
			if r.IntN(3) == 0 {
				add(c15Op{Op: "put", Name: x, Tok: nextTok()})
			}
			add(c15Op{Op: "lend", Slot: 1})
		}
	}
	// what everybody sees afterwards
	add(c15Op{Op: "read", Name: x})
	if r.IntN(4) == 0 {
		add(c15Op{Op: "get", Upd: r.IntN(4), OK: true})
	}
	add(c15Op{Op: "refresh"})
	for j, ng := 0, 1+r.IntN(3); j < ng; j++ {
		add(c15Op{Op: "get", Upd: j, OK: r.IntN(6) != 0})
	}
	add(c15Op{Op: "read", Name: x})
	if r.IntN(2) == 0 {
		add(c15Op{Op: "put", Name: x, Tok: nextTok()}, c15Op{Op: "refresh"})
		for j, ng := 0, 1+r.IntN(3); j < ng; j++ {
			add(c15Op{Op: "get", Upd: j, OK: true})
		}
		add(c15Op{Op: "read", Name: x}, c15Op{Op: "err", Upd: r.IntN(4)})
	}
	return in
}

func runC15(o Opts) {
	inTest(func(t *testing.T) {
		out := NewOut(o.Out)
		defer out.Close()
		if o.Replay != "" {
			for _, in := range readInputs[c15Input](o.Replay) {
				rec, _, _, _ := c15Run(t, in)
				out.Emit(rec)
			}
			return
		}
		for _, in := range readCorpus[c15Input](o.Corpus) {
			rec, _, _, _ := c15Run(t, in)
			rec.Corpus = "corpus"
			out.Emit(rec)
		}
		n := 400
		if o.Tier == "thorough" {
			n = 6000
		}
		if o.N > 0 {
			n = o.N
		}
		nself := 0
		for k := 0; k < n; k++ {
			in := c15Gen(o.Seed, k)
			rec, tr, blog, closes := c15Run(t, in)
			id := out.n
			out.Emit(rec)
			if nself < 9 && k%7 == 3 && rec.Direct == nil {
				// self-test: one observable altered; the kernel must flag the copy
				var coq string
				switch nself % 3 {
				case 0: // a Get that returned a different build
					for i, it := range tr {
						if it.kind == "got" {
							tr2 := append([]c15Item(nil), tr...)
							tr2[i].s = fmt.Sprintf("TGot %d %d false", it.a, it.b+1)
							coq = c15Render(in, tr2, blog, closes)
							break
						}
					}
				case 1: // a builder call that got other bytes
					if len(blog) > 0 {
						b2 := append([][4]int(nil), blog...)
						b2[len(b2)-1][2] += 1
						coq = c15Render(in, tr, b2, closes)
					}
				case 2: // an extra Close
					if len(closes) > 0 {
						c2 := append([][]int(nil), closes...)
						c2[0] = append(append([]int(nil), c2[0]...), 0)
						coq = c15Render(in, tr, blog, c2)
					}
				}
				if coq != "" {
					st := rec
					st.Coq = coq
					st.SelfTest = true
					st.SelfOf = id
					out.Emit(st)
					nself++
				}
			}
		}
		// rollbacks at the service and cache write failures
		nr := 100
		if o.Tier == "thorough" {
			nr = 2500
		}
		if o.N > 0 {
			nr = o.N / 4
		}
		nrs := 0
		for k := 0; k < nr; k++ {
			in := c15GenRoll(o.Seed, k)
			rec, tr, blog, closes := c15Run(t, in)
			id := out.n
			out.Emit(rec)
			if nrs < 3 && rec.Direct == nil {
				// self-test: a Refresh whose cache write failed is reported as having succeeded (or the reverse)
				for i := len(tr) - 1; i >= 0; i-- {
					if tr[i].kind == "refresh" && strings.HasSuffix(tr[i].s, " 2 1 true") {
						tr2 := append([]c15Item(nil), tr...)
						tr2[i].s = strings.TrimSuffix(tr[i].s, " 2 1 true") + " 0 1 true"
						st := rec
						st.Coq = c15Render(in, tr2, blog, closes)
						st.SelfTest = true
						st.SelfOf = id
						out.Emit(st)
						nrs++
						break
					}
				}
			}
		}
		// updaters registered through the lookup, then a new version and a poll
		nw := 40
		if o.Tier == "thorough" {
			nw = 1000
		}
		if o.N > 0 {
			nw = o.N / 8
		}
		for k := 0; k < nw; k++ {
			in := c15GenLookupWatch(o.Seed, k)
			rec, _, _, _ := c15Run(t, in)
			rec.Tags = append(rec.Tags, "updater-registered-through-a-lookup-then-new-version")
			out.Emit(rec)
		}
		// overlapping NewUpdater calls on one name, some of them failing
		no := 64
		if o.Tier == "thorough" {
			no = 1600
		}
		if o.N > 0 {
			no = o.N / 6
		}
		for k := 0; k < no; k++ {
			in := c15GenOverlapNew(o.Seed, k)
			rec, _, _, _ := c15Run(t, in)
			rec.Tags = append(rec.Tags, "overlapping-newupdater-calls-on-one-name")
			if strings.Contains(fmt.Sprint(rec.Obs), "TNewDone false") {
				rec.Tags = append(rec.Tags, "overlapping-newupdater-one-failed")
			}
			out.Emit(rec)
		}
		// late flights (F8)
		nl := 60
		if o.Tier == "thorough" {
			nl = 1500
		}
		if o.N > 0 {
			nl = o.N / 6
		}
		nls := 0
		for k := 0; k < nl; k++ {
			in := c15GenLate(o.Seed, k)
			rec, tr, blog, closes := c15Run(t, in)
			id := out.n
			out.Emit(rec)
			if nls < 3 && rec.Direct == nil {
				// self-test: the store serves other bytes than the model's after a late flight
				for i := len(tr) - 1; i >= 0; i-- {
					if tr[i].kind == "read" && strings.Contains(tr[i].s, "(Some ") {
						tr2 := append([]c15Item(nil), tr...)
						tr2[i].s = tr[i].s[:strings.Index(tr[i].s, "(Some ")] + "(Some 999998)"
						st := rec
						st.Coq = c15Render(in, tr2, blog, closes)
						st.SelfTest = true
						st.SelfOf = id
						out.Emit(st)
						nls++
						break
					}
				}
			}
		}
	})
}
