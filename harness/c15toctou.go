package main

// C15-toctou: stand-alone reproduction of finding F8 (repaired by 104da0c; on the repaired tree it
// prints "no lost update").  The same history is part of the regular C15 check now: scenario ops
// lbegin/lend in c15.go, exact witness in corpus/C15/f8_witness.jsonl.  Run `harness C15-toctou` by hand.
//
// LookupSecret checks that the name is unknown (store.go:361), and only later registers a flight
// (store.go:394).  If in between another caller's complete lookup installs the name and an
// Updater is created on it, the late flight fetches the secret AGAIN and overwrites
// s.active.m[name] (store.go:402) without notifying the watchers.  If the service's active version
// changed meanwhile, the store now serves the new bytes, the next poll sees "not changed", and the
// Updater keeps its stale value until some later version appears.
// The window is opened here with nothing but the exported API: a context.Context whose Deadline
// method blocks (lookupSecretInternal calls ctx.Deadline() between the check and DoChan).

import (
	"context"
	"fmt"
	"testing"
	"testing/synctest"

	"github.com/tailscale/setec/client/setec"
)

func init() { commands["C15-toctou"] = runC15Toctou }

func runC15Toctou(o Opts) {
	inTest(func(t *testing.T) {
		bubble(t, func(t *testing.T) {
			svc := &c15Service{cur: map[string]c15SV{"a": {1, 100}, "x": {1, 1}}, ans: map[string]string{}}
			ctx, cancel := context.WithCancel(context.Background())
			defer cancel()
			st, err := newStoreReleased(ctx, setec.StoreConfig{Client: svc, Secrets: []string{"a"}, AllowLookup: true,
				PollInterval: -1, Logf: func(string, ...any) {}})
			if err != nil {
				fmt.Println("NewStore:", err)
				return
			}
			defer st.Close()
			g := &c15GateCtx{Context: ctx, gate: make(chan struct{})}
			done := make(chan struct{})
			go func() { defer close(done); st.LookupSecret(g, "x") }() // passes the unknown-name check, then blocks in Deadline()
			synctest.Wait()
			builds := 0
			u, err := setec.NewUpdater(ctx, st, "x", func(b []byte) (string, error) { builds++; return string(b), nil })
			if err != nil {
				fmt.Println("NewUpdater:", err)
				return
			}
			fmt.Printf("updater created: value built from %q (builder calls: %d)\n", u.Get(), builds)
			svc.mu.Lock()
			svc.cur["x"] = c15SV{2, 2} // the service activates version 2
			svc.mu.Unlock()
			close(g.gate) // the late LookupSecret proceeds: second flight, fetches version 2, overwrites the entry
			<-done
			fmt.Printf("store now serves %q\n", st.Secret("x").Get())
			svc.beginPoll("", nil)
			err = st.Refresh(ctx)
			fmt.Printf("Refresh: err=%v answers=%s\n", err, svc.endPoll())
			v := u.Get()
			fmt.Printf("Updater.Get after the install and a poll: %q (builder calls: %d)\n", v, builds)
			if v != string(st.Secret("x").Get()) {
				fmt.Println("LOST UPDATE: the updater's value is not built from the newest installed bytes and no notification is pending")
			} else {
				fmt.Println("no lost update")
			}
		})
	})
}
