package main

// C16 - lookup of undeclared secrets is policy-gated, single-flight and bounded.
// (1) the four entry points (Secret, LookupSecret, NewUpdater, Fields.Apply) on known / unknown
// names with lookups on / off; (2) concurrent lookups of undeclared names inside a
// testing/synctest bubble (virtual time) with callers arriving at chosen instants with mixed
// deadlines / cancellations and a scripted service that answers, fails or hangs.

import (
	"bytes"
	"context"
	"encoding/json"
	"errors"
	"fmt"
	"io"
	"net/http"
	"sort"
	"strings"
	"sync"
	"testing"
	"testing/synctest"
	"time"

	"github.com/tailscale/setec/client/setec"
	"github.com/tailscale/setec/types/api"
)

func init() { commands["C16"] = runC16 }

type c16Caller struct {
	Arr int64 `json:"arr"`          // ms after the start of the scenario
	Dl  int64 `json:"dl,omitempty"` // own deadline (absolute ms), 0 = none
	Cn  int64 `json:"cn,omitempty"` // instant of cancellation (absolute ms), 0 = never
	EP  int   `json:"ep"`           // 1 LookupSecret, 2 NewUpdater, 3 Fields.Apply
}

type c16Script struct {
	Kind  string `json:"kind"` // ans | fail | hang; over HTTP also: deny (403) | notfound (404) | notmod (304) | garbage (200, undecodable); fail = 500
	Delay int64  `json:"delay,omitempty"`
	Tok   int    `json:"tok,omitempty"`
}

type c16Flight struct {
	Name      string      `json:"name"`
	Callers   []c16Caller `json:"callers"`
	Scripts   []c16Script `json:"scripts"`
	CacheFail int         `json:"cache_fail,omitempty"` // the first k cache writes whose document contains Name are refused
	Store     int         `json:"store,omitempty"`      // which Store of the process (each has its own service, client and cache)
}

type c16Input struct {
	Kind    string      `json:"kind"` // policy | flight | late
	Allow   bool        `json:"allow,omitempty"`
	EP      int         `json:"ep,omitempty"` // 0 Secret, 1 LookupSecret, 2 NewUpdater, 3 Apply
	Name    string      `json:"name,omitempty"`
	EP2     int         `json:"ep2,omitempty"`    // late: entry point of the caller that overtakes (0 = nobody)
	Change  bool        `json:"change,omitempty"` // late: the service activates a new version before the held caller is released
	CFail   bool        `json:"cfail,omitempty"`  // policy: the cache refuses every write made after construction
	HTTP    bool        `json:"http,omitempty"`   // the store talks to the service through the real setec.Client over a scripted HTTP transport
	Polls   []c16Script `json:"polls,omitempty"`  // pollh: the HTTP answer to the conditional get of "a", "b" (in this order)
	Flights []c16Flight `json:"flights,omitempty"`
}

type c16Key struct{}

var c16ErrService = errors.New("scripted service failure")

// what the scripted service did with a request that it failed (kind = the script's kind); Is(c16ErrService)
type c16SvcErr struct{ kind string }

func (e *c16SvcErr) Error() string        { return "scripted service failure: " + e.kind }
func (e *c16SvcErr) Is(target error) bool { return target == c16ErrService }

// ---- the REAL network client over a scripted HTTP transport: the scripted service's outcome is
// turned into an HTTP response (or a transport error when the request's context ended), and
// client/setec/client.go turns that back into a value or a sentinel error

func c16Transport(svc *c16Svc) func(*http.Request) (*http.Response, error) {
	reply := func(code int, body string) (*http.Response, error) {
		return &http.Response{StatusCode: code, Status: fmt.Sprintf("%d %s", code, http.StatusText(code)), Header: http.Header{},
			Body: io.NopCloser(bytes.NewReader([]byte(body)))}, nil
	}
	return func(req *http.Request) (*http.Response, error) {
		var gr api.GetRequest
		if req.Body == nil || json.NewDecoder(req.Body).Decode(&gr) != nil || req.URL.Path != "/api/get" {
			return reply(400, "bad request")
		}
		var sv *api.SecretValue
		var err error
		if gr.UpdateIfChanged {
			sv, err = svc.GetIfChanged(req.Context(), gr.Name, gr.Version)
		} else {
			sv, err = svc.Get(req.Context(), gr.Name)
		}
		var se *c16SvcErr
		switch {
		case err == nil:
			bs, _ := json.Marshal(sv)
			return reply(200, string(bs))
		case errors.As(err, &se):
			switch se.kind {
			case "deny":
				return reply(403, "access denied")
			case "notfound":
				return reply(404, "not found")
			case "notmod":
				return reply(304, "")
			case "garbage":
				return reply(200, "{{{ this is not JSON")
			}
			return reply(500, "internal error")
		case errors.Is(err, api.ErrNotFound):
			return reply(404, "not found")
		case errors.Is(err, api.ErrValueNotChanged):
			return reply(304, "")
		case errors.Is(err, c16ErrReleased):
			return nil, err
		case req.Context().Err() != nil:
			return nil, req.Context().Err() // what net/http reports when the request's context ends
		}
		return reply(500, "internal error")
	}
}

func c16ClientFor(svc *c16Svc, overHTTP bool) setec.StoreClient {
	if overHTTP {
		return setec.Client{Server: "http://setec.invalid", DoHTTP: c16Transport(svc)}
	}
	return svc
}

func c16Value(name string, tok int) []byte { return []byte(fmt.Sprintf("val-%s-%d", name, tok)) }
func c16Tok(b []byte) int {
	for i := len(b) - 1; i >= 0; i-- {
		if b[i] == '-' {
			var t int
			if _, err := fmt.Sscanf(string(b[i+1:]), "%d", &t); err == nil {
				return t
			}
			break
		}
	}
	return 999999
}

// struct types for Fields.Apply (the tag fixes the name)
type c16FA struct {
	F setec.Secret `setec:"a"`
}
type c16FX struct {
	F setec.Secret `setec:"x"`
}
type c16FY struct {
	F setec.Secret `setec:"y"`
}
type c16FN struct {
	F setec.Secret `setec:"nowhere"`
}

func c16Apply(ctx context.Context, st *setec.Store, name string) (setec.Secret, error) {
	var ptr any
	var get func() setec.Secret
	switch name {
	case "a":
		v := &c16FA{}
		ptr, get = v, func() setec.Secret { return v.F }
	case "x":
		v := &c16FX{}
		ptr, get = v, func() setec.Secret { return v.F }
	case "y":
		v := &c16FY{}
		ptr, get = v, func() setec.Secret { return v.F }
	default:
		v := &c16FN{}
		ptr, get = v, func() setec.Secret { return v.F }
	}
	fs, err := setec.ParseFields(ptr, "")
	if err != nil {
		return nil, err
	}
	if err := fs.Apply(ctx, st); err != nil {
		return nil, err
	}
	return get(), nil
}

// c16Call runs one entry point; returns the value token read through the handle (or -1)
func c16Call(ctx context.Context, st *setec.Store, ep int, name string) (tok int, nilHandle bool, err error) {
	tok, nilHandle, _, err = c16Call2(ctx, st, ep, name)
	return
}

// c16Call2 also returns how to read the value again later through what the call handed out (the handle,
// or the Updater's Get)
func c16Call2(ctx context.Context, st *setec.Store, ep int, name string) (tok int, nilHandle bool, again func() int, err error) {
	switch ep {
	case 0:
		h := st.Secret(name)
		if h == nil {
			return -1, true, nil, nil
		}
		return c16Tok(h.Get()), false, func() int { return c16Tok(h.Get()) }, nil
	case 1:
		h, err := st.LookupSecret(ctx, name)
		if err != nil {
			return -1, false, nil, err
		}
		if h == nil {
			return -1, true, nil, nil
		}
		return c16Tok(h.Get()), false, func() int { return c16Tok(h.Get()) }, nil
	case 2:
		u, err := newUpdaterReleased(ctx, st, name, func(b []byte) (int, error) { return c16Tok(b), nil }) // (c15.go)
		if err != nil {
			return -1, false, nil, err
		}
		return u.Get(), false, func() int { return u.Get() }, nil
	default:
		h, err := c16Apply(ctx, st, name)
		if err != nil {
			return -1, false, nil, err
		}
		if h == nil {
			return -1, true, nil, nil
		}
		return c16Tok(h.Get()), false, func() int { return c16Tok(h.Get()) }, nil
	}
}

// ---- scripted service

type c16SV struct {
	ver uint32
	tok int
}

type c16Svc struct {
	mu      sync.Mutex
	t0      time.Time
	static  map[string]c16SV // names that exist at the service from the start
	scripts map[string][]c16Script
	vals    map[string]c16SV // installed by answers
	log     map[string][]string
	conc    map[string]int
	maxc    map[string]int
	polled  map[string]bool
	pollver map[string]uint32 // the version the client said it holds, per name, at the last poll
	nget    int
	logging bool
	probe   bool // after the scenario: every Get is counted and answered "not found" at once
	after   bool // during the final Refresh: a plain Get is a poll request (version 0), answered at once
	bumped  map[string]bool // after the scenario the service activated a new version of the name: polls see it
	// every wait of the service is bounded by the scenario's own end: when the harness calls release(), the
	// requests that are STILL waiting (their context never ended although every caller has returned) are
	// answered with an error and reported
	stop     chan struct{}
	final    chan struct{} // closed when the whole scenario function returns
	stopped  bool
	open     map[int]string // request id -> description
	nextID   int
	released []string
}

func (s *c16Svc) ms() int64 { return time.Since(s.t0).Milliseconds() }

func (s *c16Svc) Get(ctx context.Context, name string) (*api.SecretValue, error) {
	s.mu.Lock()
	s.nget++
	if sv, ok := s.static[name]; ok {
		s.mu.Unlock()
		return &api.SecretValue{Value: c16Value(name, sv.tok), Version: api.SecretVersion(sv.ver)}, nil
	}
	if s.after {
		s.polled[name] = true
		sv, ok := s.vals[name]
		s.mu.Unlock()
		if !ok {
			return nil, api.ErrNotFound
		}
		return &api.SecretValue{Value: c16Value(name, sv.tok), Version: api.SecretVersion(sv.ver)}, nil
	}
	if !s.logging || s.probe {
		n := s.nget
		s.mu.Unlock()
		if n > 50 {
			// an implementation that keeps asking is no longer answered, so that virtual time can advance
			select {
			case <-ctx.Done():
				return nil, ctx.Err()
			case <-s.final: // (not s.stop: the probes come after release(), and must still be able to wait)
				return nil, c16ErrReleased
			}
		}
		return nil, api.ErrNotFound
	}
	owner := 99 // a request whose context does not descend from any caller's (rendered as caller 99: matches nobody)
	if v, ok := ctx.Value(c16Key{}).(int); ok {
		owner = v
	}
	sc := c16Script{Kind: "hang"}
	if q := s.scripts[name]; len(q) > 0 {
		sc, s.scripts[name] = q[0], q[1:]
	}
	s.conc[name]++
	if s.conc[name] > s.maxc[name] {
		s.maxc[name] = s.conc[name]
	}
	s.log[name] = append(s.log[name], fmt.Sprintf("MStart %d %d", owner, s.ms()))
	id := s.nextID
	s.nextID++
	s.open[id] = fmt.Sprintf("the request for %q made for caller %d at %d ms", name, owner, s.ms())
	s.mu.Unlock()

	out := "OCtx"
	var err error
	if sc.Kind == "hang" {
		select {
		case <-ctx.Done():
			err = ctx.Err()
		case <-s.stop:
			err = c16ErrReleased
		}
	} else {
		tm := time.NewTimer(time.Duration(sc.Delay) * time.Millisecond)
		select {
		case <-tm.C:
			if sc.Kind == "ans" {
				out = "OAnswered"
			} else {
				out, err = "OFailed", &c16SvcErr{kind: sc.Kind}
			}
		case <-ctx.Done():
			tm.Stop()
			err = ctx.Err()
		case <-s.stop:
			tm.Stop()
			err = c16ErrReleased
		}
	}
	s.mu.Lock()
	defer s.mu.Unlock()
	delete(s.open, id)
	s.conc[name]--
	s.log[name] = append(s.log[name], fmt.Sprintf("MEnd %d %d %s", owner, s.ms(), out))
	if err != nil {
		return nil, err
	}
	sv := c16SV{ver: s.vals[name].ver + 1, tok: sc.Tok}
	s.vals[name] = sv
	return &api.SecretValue{Value: c16Value(name, sv.tok), Version: api.SecretVersion(sv.ver)}, nil
}

func (s *c16Svc) GetIfChanged(ctx context.Context, name string, old api.SecretVersion) (*api.SecretValue, error) {
	s.mu.Lock()
	defer s.mu.Unlock()
	s.polled[name] = true
	if s.pollver != nil {
		s.pollver[name] = uint32(old)
	}
	if sv, ok := s.static[name]; ok {
		if s.bumped[name] && api.SecretVersion(sv.ver) != old {
			return &api.SecretValue{Value: c16Value(name, sv.tok), Version: api.SecretVersion(sv.ver)}, nil
		}
		return nil, api.ErrValueNotChanged
	}
	if sv, ok := s.vals[name]; ok {
		if s.bumped[name] && api.SecretVersion(sv.ver) != old {
			return &api.SecretValue{Value: c16Value(name, sv.tok), Version: api.SecretVersion(sv.ver)}, nil
		}
		return nil, api.ErrValueNotChanged
	}
	return nil, api.ErrNotFound
}

// bump: the service activates a new version of a secret it has (reports whether it has it)
func (s *c16Svc) bump(name string, tok int) bool {
	s.mu.Lock()
	defer s.mu.Unlock()
	if sv, ok := s.static[name]; ok {
		s.static[name] = c16SV{ver: sv.ver + 1, tok: tok}
		s.bumped[name] = true
		return true
	}
	if sv, ok := s.vals[name]; ok {
		s.vals[name] = c16SV{ver: sv.ver + 1, tok: tok}
		s.bumped[name] = true
		return true
	}
	return false
}

var c16ErrReleased = errors.New("request released by the harness at the end of the scenario")

// release ends every request that is still waiting and reports them
func (s *c16Svc) release() []string {
	s.mu.Lock()
	if !s.stopped {
		s.stopped = true
		close(s.stop)
	}
	var open []string
	for _, d := range s.open {
		open = append(open, fmt.Sprintf("%s, still in flight at %d ms", d, s.ms()))
	}
	sort.Strings(open)
	s.mu.Unlock()
	return open
}

// finish ends everything that may still wait on the service (end of the scenario function)
func (s *c16Svc) finish() {
	s.release()
	s.mu.Lock()
	defer s.mu.Unlock()
	select {
	case <-s.final:
	default:
		close(s.final)
	}
}

func c16NewSvc() *c16Svc {
	return &c16Svc{bumped: map[string]bool{}, stop: make(chan struct{}), final: make(chan struct{}), open: map[int]string{}, static: map[string]c16SV{"a": {ver: 1, tok: 100}}, scripts: map[string][]c16Script{}, vals: map[string]c16SV{},
		log: map[string][]string{}, conc: map[string]int{}, maxc: map[string]int{}, polled: map[string]bool{}}
}

// ---- a cache whose Write fails when told to (the cache is outside the program: its answers are inputs)

var c16ErrCache = errors.New("scripted cache write failure")

type c16Write struct {
	toks  map[string]int  // name -> value token carried by the offered document
	ok    bool            // the cache's answer
	after map[string]bool // names in the cache's contents right after the call
}

type c16Cache struct {
	mu      sync.Mutex
	data    []byte
	failAll bool
	failFor map[string]int // name -> how many more writes whose document contains it are refused
	writes  []c16Write
}

func c16DocToks(b []byte) map[string]int {
	var doc map[string]*struct {
		Secret *struct {
			Value   []byte
			Version uint32
		} `json:"secret"`
	}
	out := map[string]int{}
	if len(b) == 0 || json.Unmarshal(b, &doc) != nil {
		return out
	}
	for n, e := range doc {
		if e != nil && e.Secret != nil {
			out[n] = c16Tok(e.Secret.Value)
		} else {
			out[n] = 999997
		}
	}
	return out
}

func (c *c16Cache) Write(b []byte) error {
	c.mu.Lock()
	defer c.mu.Unlock()
	w := c16Write{toks: c16DocToks(b), ok: !c.failAll, after: map[string]bool{}}
	for n := range w.toks {
		if c.failFor[n] > 0 {
			c.failFor[n]--
			w.ok = false
		}
	}
	if w.ok {
		c.data = append([]byte(nil), b...)
	}
	for n := range c16DocToks(c.data) {
		w.after[n] = true
	}
	c.writes = append(c.writes, w)
	if !w.ok {
		return c16ErrCache
	}
	return nil
}

func (c *c16Cache) Read() ([]byte, error) {
	c.mu.Lock()
	defer c.mu.Unlock()
	return c.data, nil
}

func (c *c16Cache) has(name string) bool {
	c.mu.Lock()
	defer c.mu.Unlock()
	_, ok := c16DocToks(c.data)[name]
	return ok
}

// the first write whose document contains name: happened, accepted, token offered, in the cache right after
func (c *c16Cache) firstWith(name string) (seen, ok bool, tok int, cached bool) {
	c.mu.Lock()
	defer c.mu.Unlock()
	for _, w := range c.writes {
		if t, in := w.toks[name]; in {
			return true, w.ok, t, w.after[name]
		}
	}
	return false, true, 0, false
}

const c16Decl = "[([x61], 1, 100)]"

// ---- policy cases

func c16Policy(t *testing.T, in c16Input) Record {
	cls, nreq, tok := -1, 0, 0
	aSecret, aCached, aPolled, nreq2 := false, false, false, 0
	bumpTok, afterTok := 950, 0
	var again func() int
	svcHas := "None"
	bubble(t, func(t *testing.T) {
		svc := c16NewSvc()
		defer svc.finish() // no request outlives the scenario
		svc.static["x"] = c16SV{ver: 7, tok: 5}
		ctx, cancel := context.WithCancel(context.Background())
		defer cancel()
		cache := &c16Cache{failFor: map[string]int{}}
		st, err := newStoreReleased(ctx, setec.StoreConfig{Client: c16ClientFor(svc, in.HTTP), Secrets: []string{"a"}, AllowLookup: in.Allow,
			PollInterval: -1, Cache: cache, Logf: func(string, ...any) {}})
		if err != nil {
			cls = 9
			return
		}
		defer st.Close()
		cache.mu.Lock()
		cache.failAll = in.CFail
		cache.mu.Unlock()
		defer func() {
			// afterwards: Secret(name), one more LookupSecret, the next Refresh, the cache's contents
			func() {
				defer func() { recover() }()
				aSecret = st.Secret(in.Name) != nil
			}()
			aCached = cache.has(in.Name)
			svc.mu.Lock()
			b2 := svc.nget
			svc.mu.Unlock()
			func() {
				defer func() { recover() }()
				c2, cf := context.WithTimeout(ctx, time.Second)
				defer cf()
				st.LookupSecret(c2, in.Name)
			}()
			svc.mu.Lock()
			nreq2 = svc.nget - b2
			svc.mu.Unlock()
			// the probing lookup may itself have installed the name: the poll set is read off before it
		}()
		svc.mu.Lock()
		before := svc.nget
		svc.mu.Unlock()
		func() {
			defer func() {
				if r := recover(); r != nil {
					cls = 2
				}
			}()
			tk, isNil, re, err := c16Call2(ctx, st, in.EP, in.Name)
			again = re
			switch {
			case err != nil:
				cls = 3
			case isNil:
				cls = 1
			default:
				cls, tok = 0, tk
			}
		}()
		svc.mu.Lock()
		nreq = svc.nget - before
		svc.mu.Unlock()
		if cls == 0 && nreq > 0 {
			cls = 4
		}
		// the service activates a new version of the name (if it has it); the poll must bring it to whatever the
		// call handed out - a handle, or an Updater (whose watcher was registered on the declared name, or on
		// the name this very NewUpdater looked up)
		svc.bump(in.Name, bumpTok)
		st.Refresh(ctx)
		if again != nil {
			func() {
				defer func() {
					if recover() != nil {
						afterTok = 999998
					}
				}()
				afterTok = again()
			}()
		}
		svc.mu.Lock()
		aPolled = svc.polled[in.Name]
		svc.mu.Unlock()
	})
	if in.Name == "x" {
		svcHas = "(Some (7, 5))"
	}
	tags := []string{fmt.Sprintf("policy-allow=%v", in.Allow)}
	if in.CFail {
		tags = append(tags, "policy-cache-refuses")
	}
	if in.HTTP {
		tags = append(tags, "policy-over-real-client")
	}
	if in.EP == 2 && (cls == 0 || cls == 4) {
		if cls == 0 {
			tags = append(tags, "updater-on-a-declared-name")
		} else {
			tags = append(tags, "updater-registered-through-its-own-lookup-flight")
		}
		if afterTok == bumpTok {
			tags = append(tags, "updater-saw-the-version-activated-afterwards")
		}
	}
	rec := Record{Kind: "policy", Input: in, Obs: map[string]any{"class": cls, "requests": nreq, "token": tok,
		"secret_after": aSecret, "requests_of_second_lookup": nreq2, "polled_after": aPolled, "cached_after": aCached, "token_after_new_version_and_poll": afterTok},
		Key: fmt.Sprintf("policy:%v:%d:%s:%v:%v", in.Allow, in.EP, in.Name, in.CFail, in.HTTP), Nontrivial: in.Name != "a",
		Tags: tags,
		Coq: c16RenderPolicy(in, svcHas, cls, nreq, tok, aSecret, nreq2, aPolled, aCached) + fmt.Sprintf(" %d %d", bumpTok, afterTok)}
	return rec
}

func c16RenderPolicy(in c16Input, svcHas string, cls, nreq, tok int, aSecret bool, nreq2 int, aPolled, aCached bool) string {
	return fmt.Sprintf("CPolicy %s %s %d %s %s %d %d %d %s %s %d %s %s", coqBool(in.Allow), c16Decl, in.EP, coqBytes([]byte(in.Name)), svcHas,
		cls, nreq, tok, coqBool(in.CFail), coqBool(aSecret), nreq2, coqBool(aPolled), coqBool(aCached))
}

// ---- an overtaken flight (F8): the caller is held between its unknown-name check and the flight by a
// context whose Deadline() blocks (c15GateCtx, c15.go); somebody else completes a lookup of the name;
// the service may activate a new version; the held caller is released and its flight's locked part
// (Store.lookup_finish) runs on a name that has a value by now.

func c16Late(t *testing.T, in c16Input) Record {
	clsA, tokA, nreqA, clsB, tokB, tokS, verP := 9, 0, 0, 9, 0, 0, 0 // 9 = did not run
	held := false
	second := "None"
	bubble(t, func(t *testing.T) {
		svc := c16NewSvc()
		defer svc.finish() // no request outlives the scenario
		svc.pollver = map[string]uint32{}
		svc.static["x"] = c16SV{ver: 7, tok: 5}
		ctx, cancel := context.WithCancel(context.Background())
		defer cancel()
		st, err := newStoreReleased(ctx, setec.StoreConfig{Client: svc, Secrets: []string{"a"}, AllowLookup: true,
			PollInterval: -1, Logf: func(string, ...any) {}})
		if err != nil {
			clsA = 9
			return
		}
		defer st.Close()
		class := func(tk int, isNil bool, err error) (int, int) {
			switch {
			case err != nil:
				return 3, 0
			case isNil:
				return 1, 0
			}
			return 0, tk
		}
		g := &c15GateCtx{Context: ctx, gate: make(chan struct{})}
		done := make(chan struct{})
		go func() {
			defer close(done)
			clsA, tokA = class(c16Call(g, st, in.EP, "x"))
		}()
		synctest.Wait()
		held = g.entered.Load()
		// B runs in its own goroutine: an implementation in which the held caller already owns the flight
		// would make B join it and wait for the gate; that must become an observation (class 8), not a
		// deadlocked harness
		doneB := make(chan struct{})
		blockedB := false
		if in.EP2 != 0 {
			go func() {
				defer close(doneB)
				clsB, tokB = class(c16Call(ctx, st, in.EP2, "x"))
			}()
			synctest.Wait()
			select {
			case <-doneB:
			default:
				blockedB = true
			}
		} else {
			close(doneB)
		}
		if in.Change {
			svc.mu.Lock()
			svc.static["x"] = c16SV{ver: 8, tok: 6}
			svc.mu.Unlock()
		}
		svc.mu.Lock()
		before := svc.nget
		sv := svc.static["x"]
		svc.mu.Unlock()
		second = fmt.Sprintf("(Some (%d, %d))", sv.ver, sv.tok)
		close(g.gate)
		<-done
		<-doneB
		if blockedB {
			clsB = 8 // the overtaker could not complete while the other caller was held
		}
		svc.mu.Lock()
		nreqA = svc.nget - before
		svc.mu.Unlock()
		if h := st.Secret("x"); h != nil {
			tokS = c16Tok(h.Get())
		}
		if err := st.Refresh(ctx); err == nil {
			svc.mu.Lock()
			verP = int(svc.pollver["x"])
			svc.mu.Unlock()
		}
	})
	first := "None"
	if in.EP2 != 0 {
		first = "(Some (7, 5))"
	}
	obs := map[string]any{"held": held, "late_class": clsA, "late_token": tokA, "late_requests": nreqA,
		"overtaker_class": clsB, "overtaker_token": tokB, "served_token": tokS, "polled_version": verP}
	return Record{Kind: "late", Input: in, Obs: obs, Key: fmt.Sprintf("late:%d:%d:%v", in.EP, in.EP2, in.Change),
		Nontrivial: in.EP2 != 0, Tags: []string{"late-flight"},
		Coq: fmt.Sprintf("CLate %s %s %s %s %s %d %d %d %d %d %d %d", c16Decl, coqBytes([]byte("x")), first, second, coqBool(held),
			clsB, tokB, clsA, tokA, nreqA, tokS, verP)}
}

// ---- flight cases

type c16Res struct {
	Class int   `json:"class"` // 0 handle, 1 service error, 2 deadline, 3 canceled, 8 other error
	T     int64 `json:"t"`
	Tok   int   `json:"tok"`
}

type c16FlightObs struct {
	Name    string   `json:"name"`
	Results []c16Res `json:"results"`
	Log     []string `json:"request_log"`
	MaxConc int      `json:"max_concurrent"`
	Secret  bool     `json:"secret_after"`
	Polled  bool     `json:"polled_after"`
	Cached  bool     `json:"cached_after"`
	Solo    bool     `json:"only_name_in_store"`
	// the first cache write whose document contains the name (the lookup's own flush)
	FlSeen   bool `json:"flush_seen"`
	FlOK     bool `json:"flush_accepted"`
	FlTok    int  `json:"flush_token"`
	FlCached bool `json:"cached_right_after_flush"`
	AfterReq bool `json:"next_lookup_sends_request"`
	Stuck    []string `json:"requests_still_open_after_every_caller_returned,omitempty"`
	Stores   int      `json:"stores_in_process"`
	BumpTok  int      `json:"token_of_the_version_activated_afterwards"`
	After    []int    `json:"token_served_to_each_caller_after_that_and_a_poll"`
}

// one Store of the process with everything that is its own: service, client, cache
type c16Env struct {
	svc   *c16Svc
	cache *c16Cache
	st    *setec.Store
	names int
}

func c16RunFlights(t *testing.T, in c16Input) []c16FlightObs {
	obs := make([]c16FlightObs, len(in.Flights))
	bubble(t, func(t *testing.T) {
		nst := 1
		for _, f := range in.Flights {
			if f.Store+1 > nst {
				nst = f.Store + 1
			}
		}
		ctx, cancel := context.WithCancel(context.Background())
		defer cancel()
		t0 := time.Now()
		envs := make([]*c16Env, nst)
		for k := range envs {
			e := &c16Env{svc: c16NewSvc(), cache: &c16Cache{failFor: map[string]int{}}}
			defer e.svc.finish()
			e.svc.t0 = t0
			for _, f := range in.Flights {
				if f.Store == k {
					e.svc.scripts[f.Name] = append([]c16Script(nil), f.Scripts...)
					e.cache.failFor[f.Name] = f.CacheFail
					e.names++
				}
			}
			st, err := newStoreReleased(ctx, setec.StoreConfig{Client: c16ClientFor(e.svc, in.HTTP), Secrets: []string{"a"}, AllowLookup: true,
				PollInterval: -1, Cache: e.cache, Logf: func(string, ...any) {}})
			if err != nil {
				return
			}
			defer st.Close()
			e.st = st
			e.svc.mu.Lock()
			e.svc.logging = true
			e.svc.mu.Unlock()
			envs[k] = e
		}
		// watchdog: a caller the implementation never releases is cancelled after 10^7 ms (far beyond
		// every instant of the scenario) so that the run ends and the late return is recorded
		wctx, wcancel := context.WithCancel(context.Background())
		wd := time.AfterFunc(10_000_000*time.Millisecond, wcancel)
		var wg sync.WaitGroup
		again := make([][]func() int, len(in.Flights))
		for fi, f := range in.Flights {
			e := envs[f.Store]
			obs[fi].Name = f.Name
			obs[fi].Results = make([]c16Res, len(f.Callers))
			again[fi] = make([]func() int, len(f.Callers))
			for ci, c := range f.Callers {
				wg.Add(1)
				go func() {
					defer wg.Done()
					time.Sleep(time.Duration(c.Arr) * time.Millisecond)
					cctx := context.WithValue(wctx, c16Key{}, ci)
					if c.Dl > 0 {
						var cf context.CancelFunc
						cctx, cf = context.WithDeadline(cctx, t0.Add(time.Duration(c.Dl)*time.Millisecond))
						defer cf()
					}
					if c.Cn > 0 {
						var cf context.CancelFunc
						cctx, cf = context.WithCancel(cctx)
						tm := time.AfterFunc(time.Duration(c.Cn-c.Arr)*time.Millisecond, cf)
						defer tm.Stop()
						defer cf()
					}
					r := c16Res{Class: 8}
					func() {
						defer func() {
							if p := recover(); p != nil {
								r.Class = 9
							}
						}()
						tok, isNil, re, err := c16Call2(cctx, e.st, c.EP, f.Name)
						switch {
						case err == nil && !isNil:
							r.Class, r.Tok = 0, tok
							again[fi][ci] = re
						case err == nil:
							r.Class = 7
						case errors.Is(err, c16ErrService):
							r.Class = 1
						case errors.Is(err, context.DeadlineExceeded):
							r.Class = 2
						case errors.Is(err, context.Canceled):
							r.Class = 3
						case in.HTTP:
							// through the real client the service's failure arrives as a sentinel (not found, access
							// denied, not changed) or as "request returned status ..." / a decoding error
							r.Class = 1
						}
					}()
					r.T = e.svc.ms()
					obs[fi].Results[ci] = r
				}()
			}
		}
		wg.Wait()
		wd.Stop()
		wcancel()
		synctest.Wait()
		// every caller has returned and every context of the scenario has ended: a request that is still
		// waiting does not follow its caller's context.  Release it (so that the bubble can drain and the
		// run goes on) and report it.
		for k, e := range envs {
			stuck := e.svc.release()
			for fi, f := range in.Flights {
				if f.Store == k {
					obs[fi].Stuck = stuck
				}
			}
		}
		synctest.Wait()
		for fi, f := range in.Flights {
			e := envs[f.Store]
			func() {
				defer func() { recover() }()
				obs[fi].Secret = e.st.Secret(f.Name) != nil
			}()
			obs[fi].Cached = e.cache.has(f.Name)
			obs[fi].Solo = e.names == 1
			obs[fi].Stores = nst
			obs[fi].FlSeen, obs[fi].FlOK, obs[fi].FlTok, obs[fi].FlCached = e.cache.firstWith(f.Name)
		}
		// the scenario proper is over: from here on the service answers every plain Get at once (the real
		// client turns a conditional get for version 0 into a plain Get - a poll request all the same).
		// Each service now ACTIVATES A NEW VERSION of every name it has answered for, and a poll follows:
		// every handle and every Updater handed out by the scenario must then serve the new bytes (an
		// Updater only if its watcher was registered - also when the registration went through the lookup).
		for fi, f := range in.Flights {
			obs[fi].BumpTok = 900 + fi
			envs[f.Store].svc.bump(f.Name, obs[fi].BumpTok)
		}
		for _, e := range envs {
			e.svc.mu.Lock()
			e.svc.after = true
			e.svc.mu.Unlock()
			e.st.Refresh(ctx)
		}
		for fi, f := range in.Flights {
			obs[fi].After = make([]int, len(f.Callers))
			for ci := range f.Callers {
				if re := again[fi][ci]; re != nil {
					func() {
						defer func() {
							if recover() != nil {
								obs[fi].After[ci] = 999998
							}
						}()
						obs[fi].After[ci] = re()
					}()
				}
			}
		}
		// one more LookupSecret per name: does it send a request?  (answered "not found" at once)
		for _, e := range envs {
			e.svc.mu.Lock()
			e.svc.after = false
			e.svc.probe = true
			e.svc.mu.Unlock()
		}
		for fi, f := range in.Flights {
			e := envs[f.Store]
			e.svc.mu.Lock()
			b0 := e.svc.nget
			e.svc.mu.Unlock()
			func() {
				defer func() { recover() }()
				c2, cf := context.WithTimeout(ctx, time.Second)
				defer cf()
				e.st.LookupSecret(c2, f.Name)
			}()
			e.svc.mu.Lock()
			obs[fi].AfterReq = e.svc.nget > b0
			obs[fi].Polled = e.svc.polled[f.Name]
			obs[fi].Log = e.svc.log[f.Name]
			obs[fi].MaxConc = e.svc.maxc[f.Name]
			e.svc.mu.Unlock()
		}
	})
	return obs
}

func c16CoqOptN(x int64) string {
	if x == 0 {
		return "None"
	}
	return fmt.Sprintf("(Some %d)", x)
}

func c16RenderFlight(f c16Flight, o c16FlightObs) (string, int) {
	return c16RenderFlightK(f, o, false)
}

func c16RenderFlightK(f c16Flight, o c16FlightObs, overHTTP bool) (string, int) {
	cs := make([]string, len(f.Callers))
	for i, c := range f.Callers {
		cs[i] = fmt.Sprintf("C %d %s %s", c.Arr, c16CoqOptN(c.Dl), c16CoqOptN(c.Cn))
	}
	sc := make([]string, len(f.Scripts))
	for i, s := range f.Scripts {
		if overHTTP {
			// the HTTP response the transport gives (the kernel maps it with client.go's modelled status map)
			switch s.Kind {
			case "ans":
				sc[i] = fmt.Sprintf("HResp %d 200 (Some (%d, %d))", s.Delay, i+1, s.Tok)
			case "fail":
				sc[i] = fmt.Sprintf("HResp %d 500 None", s.Delay)
			case "deny":
				sc[i] = fmt.Sprintf("HResp %d 403 None", s.Delay)
			case "notfound":
				sc[i] = fmt.Sprintf("HResp %d 404 None", s.Delay)
			case "notmod":
				sc[i] = fmt.Sprintf("HResp %d 304 None", s.Delay)
			case "garbage":
				sc[i] = fmt.Sprintf("HResp %d 200 None", s.Delay)
			default:
				sc[i] = "HHang"
			}
			continue
		}
		switch s.Kind {
		case "ans":
			sc[i] = fmt.Sprintf("SAns %d %d %d", s.Delay, i+1, s.Tok)
		case "fail":
			sc[i] = fmt.Sprintf("SFail %d", s.Delay)
		default:
			sc[i] = "SHang"
		}
	}
	// who started each retry flight (scheduler choice): the owners of requests that did not start
	// at their owner's arrival
	var wins []string
	retries := 0
	for _, l := range o.Log {
		var owner int
		var at int64
		if n, _ := fmt.Sscanf(l, "MStart %d %d", &owner, &at); n == 2 {
			if owner < 0 || owner >= len(f.Callers) || f.Callers[owner].Arr != at {
				wins = append(wins, fmt.Sprintf("%d%%nat", max(owner, 0)))
				retries++
			}
		}
	}
	res := make([]string, len(o.Results))
	for i, r := range o.Results {
		res[i] = fmt.Sprintf("(%d, %d, %d)", r.Class, r.T, r.Tok)
	}
	lg := make([]string, len(o.Log))
	for i, l := range o.Log {
		lg[i] = "(" + l + ")"
	}
	for i := range cs {
		cs[i] = "(" + cs[i] + ")"
	}
	for i := range sc {
		sc[i] = "(" + sc[i] + ")"
	}
	eps := make([]string, len(f.Callers))
	aft := make([]string, len(f.Callers))
	for i, c := range f.Callers {
		eps[i] = fmt.Sprint(c.EP)
		aft[i] = "0"
		if i < len(o.After) {
			aft[i] = fmt.Sprint(o.After[i])
		}
	}
	ctor := "CFlight"
	if overHTTP {
		ctor = "CFlightH"
	}
	return fmt.Sprintf(ctor+" %s %s %s %s %s %s %s %d %s %s %s", c16Decl, coqBytes([]byte(f.Name)), coqList(cs), coqList(sc),
		coqList(wins), coqList(res), coqList(lg), o.MaxConc, coqBool(o.Secret), coqBool(o.Polled), coqBool(o.Cached)) +
		fmt.Sprintf(" %s %s %s %d %s %s", coqBool(o.Solo), coqBool(o.FlSeen), coqBool(o.FlOK), o.FlTok, coqBool(o.FlCached), coqBool(o.AfterReq)) +
		fmt.Sprintf(" %s %d %s", coqList(eps), o.BumpTok, coqList(aft)), retries
}

// the service's versions: the model's SAns carries the version the service will assign; the
// harness's service numbers its answers 1,2,... per name, but only ANSWERED requests consume a
// number, so the version is not compared (only bytes are observable through a handle).

func c16Flights(t *testing.T, in c16Input) []Record {
	obs := c16RunFlights(t, in)
	var recs []Record
	for fi, f := range in.Flights {
		coq, retries := c16RenderFlightK(f, obs[fi], in.HTTP)
		classes := map[int]bool{}
		for _, r := range obs[fi].Results {
			classes[r.Class] = true
		}
		tags := []string{fmt.Sprintf("callers=%d", len(f.Callers)), fmt.Sprintf("names=%d", len(in.Flights))}
		names := map[int]string{0: "handle", 1: "service-error", 2: "own-deadline", 3: "own-cancel", 7: "nil", 8: "other-error", 9: "panic"}
		var cl []int
		for c := range classes {
			cl = append(cl, c)
		}
		sort.Ints(cl)
		for _, c := range cl {
			tags = append(tags, "result-"+names[c])
		}
		if retries > 0 {
			tags = append(tags, "retry-after-others-cancellation")
		}
		if len(obs[fi].Log) > 2 {
			tags = append(tags, "several-requests")
		}
		if obs[fi].FlSeen && !obs[fi].FlOK {
			tags = append(tags, "cache-refused-the-lookups-flush")
		}
		if obs[fi].FlSeen && obs[fi].FlOK {
			tags = append(tags, "lookup-flush-landed")
		}
		// how each successful NewUpdater caller's watcher came to be registered
		for ci, c := range f.Callers {
			if c.EP != 2 || ci >= len(obs[fi].Results) || obs[fi].Results[ci].Class != 0 {
				continue
			}
			owner := false
			for _, l := range obs[fi].Log {
				var o int
				var at int64
				if n, _ := fmt.Sscanf(l, "MStart %d %d", &o, &at); n == 2 && o == ci {
					owner = true
				}
			}
			switch {
			case owner:
				tags = append(tags, "updater-registered-through-its-own-lookup-flight")
			case obs[fi].Results[ci].T == c.Arr:
				tags = append(tags, "updater-on-a-name-looked-up-earlier")
			default:
				tags = append(tags, "updater-registered-after-joining-another-callers-flight")
			}
			if ci < len(obs[fi].After) && obs[fi].After[ci] == obs[fi].BumpTok {
				tags = append(tags, "updater-saw-the-version-activated-afterwards")
			}
		}
		if obs[fi].Stores > 1 {
			tags = append(tags, fmt.Sprintf("stores-in-process=%d", obs[fi].Stores))
			// did a request of ANOTHER store for the same name overlap one of ours?
			type iv struct{ a, b int64 }
			ivs := func(log []string) []iv {
				var out []iv
				var start int64 = -1
				for _, l := range log {
					var o int
					var at int64
					if n, _ := fmt.Sscanf(l, "MStart %d %d", &o, &at); n == 2 {
						start = at
					} else if n, _ := fmt.Sscanf(l, "MEnd %d %d", &o, &at); n == 2 && start >= 0 {
						out = append(out, iv{start, at})
						start = -1
					}
				}
				return out
			}
			mine := ivs(obs[fi].Log)
			overlap := false
			for fj, g := range in.Flights {
				if fj == fi || g.Name != f.Name || g.Store == f.Store {
					continue
				}
				for _, x := range ivs(obs[fj].Log) {
					for _, y := range mine {
						if x.a < y.b && y.a < x.b {
							overlap = true
						}
					}
				}
			}
			if overlap {
				tags = append(tags, "same-name-requested-by-two-stores-at-once")
			}
		}
		if in.HTTP {
			tags = append(tags, "over-real-client")
			for _, sc := range f.Scripts {
				if sc.Kind != "hang" && sc.Delay > 30000 {
					tags = append(tags, "real-client-slow-answer>30s")
					break
				}
			}
		}
		one := c16Input{Kind: "flight", Flights: in.Flights, HTTP: in.HTTP}
		rec := Record{Kind: "flight", Input: one, Obs: obs[fi], Key: coq, Nontrivial: len(f.Callers) >= 2 && len(classes) >= 2,
			Tags: tags, Coq: coq}
		if obs[fi].FlSeen && !obs[fi].FlOK {
			rec.Nontrivial = true
		}
		if len(obs[fi].Stuck) > 0 {
			rec.Tags = append(rec.Tags, "request-outlived-every-caller")
			rec.Direct = &DirectVerdict{OK: false, What: "a request does not end with its caller's context: " + strings.Join(obs[fi].Stuck, "; ") +
				" - although every caller had returned and every context of the scenario had ended (released by the harness)"}
		}
		for _, r := range obs[fi].Results {
			if r.Class >= 7 {
				rec.Direct = &DirectVerdict{OK: false, What: fmt.Sprintf("caller of %q got result class %s", f.Name, names[r.Class])}
			}
		}
		recs = append(recs, rec)
	}
	return recs
}

// ---- one Refresh through the real client: the declared names "a" and "b" are polled; the transport answers
// each conditional get after a scripted (virtual) delay with 304 / a new version / an error status.  A
// slow answer must simply be waited for: one request per name.

func c16PollH(t *testing.T, in c16Input) Record {
	names := []string{"a", "b"}
	nreq := map[string]int{}
	vals := map[string]int{}
	cls, dur := -1, int64(-1)
	stuck := 0
	bubble(t, func(t *testing.T) {
		var mu sync.Mutex
		polling := false
		open := 0
		stop := make(chan struct{}) // closed when Refresh has returned: no request outlives the scenario
		defer func() {
			synctest.Wait()
			mu.Lock()
			stuck = open
			mu.Unlock()
			close(stop)
			synctest.Wait()
		}()
		reply := func(code int, body string) (*http.Response, error) {
			return &http.Response{StatusCode: code, Header: http.Header{}, Body: io.NopCloser(bytes.NewReader([]byte(body)))}, nil
		}
		cli := setec.Client{Server: "http://setec.invalid", DoHTTP: func(req *http.Request) (*http.Response, error) {
			var gr api.GetRequest
			if json.NewDecoder(req.Body).Decode(&gr) != nil {
				return reply(400, "bad request")
			}
			idx := -1
			for i, n := range names {
				if n == gr.Name {
					idx = i
				}
			}
			mu.Lock()
			p := polling
			if p {
				nreq[gr.Name]++
			}
			mu.Unlock()
			if idx < 0 {
				return reply(404, "not found")
			}
			if !p { // construction: version 1
				bs, _ := json.Marshal(api.SecretValue{Value: c16Value(gr.Name, 100+idx), Version: 1})
				return reply(200, string(bs))
			}
			sc := c16Script{Kind: "notmod"}
			if idx < len(in.Polls) {
				sc = in.Polls[idx]
			}
			mu.Lock()
			open++
			mu.Unlock()
			defer func() { mu.Lock(); open--; mu.Unlock() }()
			if sc.Kind == "hang" {
				select {
				case <-req.Context().Done():
					return nil, req.Context().Err()
				case <-stop:
					return nil, c16ErrReleased
				}
			}
			tm := time.NewTimer(time.Duration(sc.Delay) * time.Millisecond)
			select {
			case <-tm.C:
			case <-req.Context().Done():
				tm.Stop()
				return nil, req.Context().Err()
			case <-stop:
				tm.Stop()
				return nil, c16ErrReleased
			}
			switch sc.Kind {
			case "ans":
				bs, _ := json.Marshal(api.SecretValue{Value: c16Value(gr.Name, sc.Tok), Version: 2})
				return reply(200, string(bs))
			case "notmod":
				return reply(304, "")
			case "deny":
				return reply(403, "access denied")
			case "notfound":
				return reply(404, "not found")
			case "garbage":
				return reply(200, "{{{ this is not JSON")
			}
			return reply(500, "internal error")
		}}
		ctx, cancel := context.WithCancel(context.Background())
		defer cancel()
		st, err := newStoreReleased(ctx, setec.StoreConfig{Client: cli, Secrets: names, PollInterval: -1, Logf: func(string, ...any) {}})
		if err != nil {
			cls = 9
			return
		}
		defer st.Close()
		mu.Lock()
		polling = true
		mu.Unlock()
		t0 := time.Now()
		// a watchdog far beyond every scripted delay, so that an implementation that never finishes shows up
		// (the context itself has NO deadline, as in the store's own polling loop: nothing but the service
		// decides how long a request takes)
		rctx, rcancel := context.WithCancel(ctx)
		wd := time.AfterFunc(3*time.Hour, rcancel)
		err = st.Refresh(rctx)
		wd.Stop()
		rcancel()
		dur = time.Since(t0).Milliseconds()
		cls = 0
		if err != nil {
			cls = 1
		}
		for _, n := range names {
			vals[n] = c16Tok(st.Secret(n).Get())
		}
	})
	var ans, nr, vs []string
	for i, n := range names {
		sc := c16Script{Kind: "notmod"}
		if i < len(in.Polls) {
			sc = in.Polls[i]
		}
		h := "HHang"
		switch sc.Kind {
		case "ans":
			h = fmt.Sprintf("(HResp %d 200 (Some (2, %d)))", sc.Delay, sc.Tok)
		case "notmod":
			h = fmt.Sprintf("(HResp %d 304 None)", sc.Delay)
		case "deny":
			h = fmt.Sprintf("(HResp %d 403 None)", sc.Delay)
		case "notfound":
			h = fmt.Sprintf("(HResp %d 404 None)", sc.Delay)
		case "garbage":
			h = fmt.Sprintf("(HResp %d 200 None)", sc.Delay)
		case "fail":
			h = fmt.Sprintf("(HResp %d 500 None)", sc.Delay)
		}
		ans = append(ans, fmt.Sprintf("(%s, %s)", coqBytes([]byte(n)), h))
		nr = append(nr, fmt.Sprintf("(%s, %d)", coqBytes([]byte(n)), nreq[n]))
		vs = append(vs, fmt.Sprintf("(%s, %d)", coqBytes([]byte(n)), vals[n]))
	}
	coq := fmt.Sprintf("CPollH [([x61], 1, 100);([x62], 1, 101)] %s %d %s %d %s", coqList(ans), cls, coqList(nr), dur, coqList(vs))
	slow := false
	for _, sc := range in.Polls {
		if sc.Delay > 30000 {
			slow = true
		}
	}
	tags := []string{"poll-over-real-client"}
	if slow {
		tags = append(tags, "real-client-slow-answer>30s")
	}
	rec := Record{Kind: "pollh", Input: in, Obs: map[string]any{"class": cls, "requests": nreq, "duration_ms": dur, "tokens": vals, "requests_open_after_refresh": stuck},
		Key: coq, Nontrivial: slow, Tags: tags, Coq: coq}
	if stuck > 0 {
		rec.Direct = &DirectVerdict{OK: false, What: fmt.Sprintf("%d request(s) of the poll were still in flight after Refresh had returned and its context had ended", stuck)}
	}
	return rec
}

// ---- generation: all caller instants are distinct multiples of 10 ms; service delays are 5 mod 10,
// so no two events of one name coincide (ties are decided by the scheduler, outside the model)

func c16GenFlight(r interface {
	IntN(int) int
	Int64N(int64) int64
}, name string) c16Flight {
	f := c16Flight{Name: name}
	used := map[int64]bool{}
	k := 1 + r.IntN(5)
	base := int64(10 * (1 + r.IntN(2000)))
	pick := func(lo, span int64) int64 {
		for {
			x := lo + 10*r.Int64N(span/10+1)
			if !used[x] {
				return x
			}
		}
	}
	for i := 0; i < k; i++ {
		var c c16Caller
		for {
			c = c16Caller{EP: 1 + r.IntN(3)}
			switch r.IntN(5) {
			case 0:
				c.Arr = pick(base, 1000)
			case 1:
				c.Arr = pick(base, 400000)
			default:
				c.Arr = pick(base, 60000)
			}
			switch r.IntN(5) {
			case 0, 1:
				c.Dl = pick(c.Arr+10, 120000)
			case 2:
				c.Dl = pick(c.Arr+10, 500000)
			}
			if r.IntN(3) == 0 {
				c.Cn = pick(c.Arr+10, 200000)
			}
			dl := c.Dl
			if dl == 0 {
				dl = c.Arr + 300000
			}
			if used[c.Arr] || used[dl] || (c.Cn != 0 && (used[c.Cn] || c.Cn == dl)) || dl == c.Arr {
				continue
			}
			used[c.Arr], used[dl] = true, true
			if c.Cn != 0 {
				used[c.Cn] = true
			}
			break
		}
		f.Callers = append(f.Callers, c)
	}
	ns := 1 + r.IntN(6)
	for i := 0; i < ns; i++ {
		var s c16Script
		d := int64(5 + 10*r.IntN(3000))
		if r.IntN(3) == 0 {
			d = int64(5 + 10*r.IntN(45000))
		}
		switch x := r.IntN(10); {
		case x < 4:
			s = c16Script{Kind: "ans", Delay: d, Tok: 1 + r.IntN(50)}
		case x < 6:
			s = c16Script{Kind: "fail", Delay: d}
		default:
			s = c16Script{Kind: "hang"}
		}
		f.Scripts = append(f.Scripts, s)
	}
	return f
}

func runC16(o Opts) {
	inTest(func(t *testing.T) {
		out := NewOut(o.Out)
		defer out.Close()
		runOne := func(in c16Input, corpus bool) []Record {
			var recs []Record
			if in.Kind == "policy" {
				recs = []Record{c16Policy(t, in)}
			} else if in.Kind == "late" {
				recs = []Record{c16Late(t, in)}
			} else if in.Kind == "pollh" {
				recs = []Record{c16PollH(t, in)}
			} else {
				recs = c16Flights(t, in)
			}
			for i := range recs {
				if corpus {
					recs[i].Corpus = "corpus"
				}
				recs[i].ID = out.n
				out.Emit(recs[i])
			}
			return recs
		}
		if o.Replay != "" {
			for _, in := range readInputs[c16Input](o.Replay) {
				runOne(in, false)
			}
			return
		}
		for _, in := range readCorpus[c16Input](o.Corpus) {
			runOne(in, true)
		}
		var selfSrc, cacheSelf []Record
		for _, allow := range []bool{false, true} {
			for ep := 0; ep < 4; ep++ {
				for _, name := range []string{"a", "x", "nowhere"} {
					recs := runOne(c16Input{Kind: "policy", Allow: allow, EP: ep, Name: name}, false)
					if !allow && name == "x" && ep == 1 {
						selfSrc = append(selfSrc, recs[0])
					}
					// the same call with a cache that refuses every write
					recs = runOne(c16Input{Kind: "policy", Allow: allow, EP: ep, Name: name, CFail: true}, false)
					if allow && name == "x" && ep == 1 {
						cacheSelf = append(cacheSelf, recs[0])
					}
				}
			}
		}
		// overtaken flights (F8): every pair of entry points, with and without a version change; EP2 = 0: nobody
		// overtakes, the held caller's own flight installs
		for ep := 1; ep < 4; ep++ {
			for ep2 := 0; ep2 < 4; ep2++ {
				for _, change := range []bool{false, true} {
					recs := runOne(c16Input{Kind: "late", Allow: true, EP: ep, EP2: ep2, Change: change}, false)
					if ep == 1 && ep2 == 2 && change {
						selfSrc = append(selfSrc, recs[0])
					}
				}
			}
		}
		n := 350
		if o.Tier == "thorough" {
			n = 6000
		}
		if o.N > 0 {
			n = o.N
		}
		for k := 0; k < n; k++ {
			r := NewRand(o.Seed, uint64(1600+k))
			in := c16Input{Kind: "flight"}
			in.Flights = append(in.Flights, c16GenFlight(r, "x"))
			if r.IntN(4) == 0 {
				in.Flights = append(in.Flights, c16GenFlight(r, "y"))
			}
			// a second stream decides where the cache refuses writes (the scenarios stay what they were)
			r3 := NewRand(o.Seed, uint64(2600+k))
			for fi := range in.Flights {
				switch x := r3.IntN(10); {
				case x < 3:
					in.Flights[fi].CacheFail = 1
				case x < 4:
					in.Flights[fi].CacheFail = 2
				}
			}
			recs := runOne(in, false)
			if len(selfSrc) < 8 && k%11 == 5 {
				selfSrc = append(selfSrc, recs[0])
			}
		}
		// ---- TWO (or three) Stores in one process, each with its own service (own bytes for the same name, or a
		// service that denies / lacks it), looking up the SAME name in overlapping windows: lookups are
		// coalesced per store, so each store sends its own request and installs its own service's answer
		nts := 120
		if o.Tier == "thorough" {
			nts = 2500
		}
		if o.N > 0 {
			nts = o.N / 3
		}
		for k := 0; k < nts; k++ {
			r := NewRand(o.Seed, uint64(5600+k))
			in := c16Input{Kind: "flight", HTTP: r.IntN(4) == 0}
			nstores := 2
			if r.IntN(7) == 0 {
				nstores = 3
			}
			first := c16GenFlight(r, "x")
			// the first store's request is held for a while (a slow answer, a slow failure, or a hang)
			switch x := r.IntN(10); {
			case x < 5:
				first.Scripts[0] = c16Script{Kind: "ans", Delay: int64(20005 + 10*r.IntN(4000)), Tok: 1 + r.IntN(50)}
			case x < 7:
				first.Scripts[0] = c16Script{Kind: "fail", Delay: int64(20005 + 10*r.IntN(4000))}
			default:
				first.Scripts[0] = c16Script{Kind: "hang"}
			}
			minArr := first.Callers[0].Arr
			for _, c := range first.Callers {
				if c.Arr < minArr {
					minArr = c.Arr
				}
			}
			in.Flights = append(in.Flights, first)
			for st := 1; st < nstores; st++ {
				f := c16GenFlight(r, "x")
				for si := range f.Scripts {
					if f.Scripts[si].Kind == "ans" {
						f.Scripts[si].Tok += 50 * st // other bytes than the other service's
					}
				}
				// its first caller arrives while the first store's request is in flight
				m := f.Callers[0].Arr
				for _, c := range f.Callers {
					if c.Arr < m {
						m = c.Arr
					}
				}
				delta := minArr + int64(10*(1+r.IntN(1500))) - m
				if m+delta > 0 {
					for ci := range f.Callers {
						f.Callers[ci].Arr += delta
						if f.Callers[ci].Dl > 0 {
							f.Callers[ci].Dl += delta
						}
						if f.Callers[ci].Cn > 0 {
							f.Callers[ci].Cn += delta
						}
					}
				}
				f.Store = st
				in.Flights = append(in.Flights, f)
			}
			if r.IntN(2) == 0 { // the mirror image: the held request belongs to the LAST store
				for fi := range in.Flights {
					in.Flights[fi].Store = nstores - 1 - in.Flights[fi].Store
				}
			}
			if r.IntN(5) == 0 { // and another name in one of the stores
				g := c16GenFlight(r, "y")
				g.Store = r.IntN(nstores)
				in.Flights = append(in.Flights, g)
			}
			runOne(in, false)
		}
		// ---- the same through the REAL network client (client/setec/client.go) over a scripted HTTP transport
		for _, allow := range []bool{false, true} {
			for ep := 0; ep < 4; ep++ {
				for _, name := range []string{"a", "x", "nowhere"} {
					runOne(c16Input{Kind: "policy", Allow: allow, EP: ep, Name: name, HTTP: true}, false)
				}
			}
		}
		nh := 120
		if o.Tier == "thorough" {
			nh = 2500
		}
		if o.N > 0 {
			nh = o.N / 3
		}
		slowDelays := []int64{31005, 45005, 240005, 29995, 60005}
		var httpSelf []Record
		for k := 0; k < nh; k++ {
			r := NewRand(o.Seed, uint64(4600+k))
			in := c16Input{Kind: "flight", HTTP: true}
			in.Flights = append(in.Flights, c16GenFlight(r, "x"))
			if r.IntN(5) == 0 {
				in.Flights = append(in.Flights, c16GenFlight(r, "y"))
			}
			for fi := range in.Flights {
				f := &in.Flights[fi]
				for si := range f.Scripts {
					sc := &f.Scripts[si]
					d := sc.Delay
					if d == 0 {
						d = int64(5 + 10*r.IntN(3000))
					}
					if r.IntN(3) == 0 {
						d = slowDelays[r.IntN(len(slowDelays))]
					}
					switch x := r.IntN(100); {
					case x < 45:
						*sc = c16Script{Kind: "ans", Delay: d, Tok: 1 + r.IntN(50)}
					case x < 55:
						*sc = c16Script{Kind: "fail", Delay: d}
					case x < 62:
						*sc = c16Script{Kind: "deny", Delay: d}
					case x < 70:
						*sc = c16Script{Kind: "notfound", Delay: d}
					case x < 75:
						*sc = c16Script{Kind: "garbage", Delay: d}
					case x < 78:
						*sc = c16Script{Kind: "notmod", Delay: d}
					default:
						*sc = c16Script{Kind: "hang"}
					}
				}
				if r.IntN(10) < 3 {
					// one caller without deadline, a service that is merely slow (more than any per-request
					// timeout a client might think of, less than the five-minute limit)
					f.Callers = f.Callers[:1]
					f.Callers[0].Dl, f.Callers[0].Cn = 0, 0
					kind := "ans"
					if r.IntN(4) == 0 {
						kind = []string{"fail", "notfound", "deny"}[r.IntN(3)]
					}
					f.Scripts[0] = c16Script{Kind: kind, Delay: slowDelays[r.IntN(3)], Tok: 1 + r.IntN(50)}
				}
			}
			recs := runOne(in, false)
			if len(httpSelf) < 3 && k%13 == 4 {
				httpSelf = append(httpSelf, recs[0])
			}
		}
		// Refresh-driven polls through the real client: slow answers, new values, error statuses
		for _, d := range []int64{505, 31005, 45005, 240005} {
			for _, ka := range []string{"notmod", "ans", "fail", "notfound"} {
				for _, kb := range []string{"notmod", "ans"} {
					if (ka == "fail" || ka == "notfound") && d == 240005 {
						continue
					}
					runOne(c16Input{Kind: "pollh", HTTP: true, Polls: []c16Script{{Kind: ka, Delay: d, Tok: 7}, {Kind: kb, Delay: 1005, Tok: 8}}}, false)
				}
			}
		}
		// self-test for the cases over the real client: a caller that returned at another instant
		for _, rec := range httpSelf {
			st := rec
			st.SelfTest, st.SelfOf = true, rec.ID
			in := rec.Input.(c16Input)
			ob := rec.Obs.(c16FlightObs)
			ob.Results = append([]c16Res(nil), ob.Results...)
			ob.Results[0].T += 30000
			st.Coq, _ = c16RenderFlightK(in.Flights[0], ob, true)
			out.Emit(st)
		}
		// the service answers the first request while the cache refuses the lookup's flush (or not)
		nc := 80
		if o.Tier == "thorough" {
			nc = 1500
		}
		if o.N > 0 {
			nc = o.N / 4
		}
		for k := 0; k < nc; k++ {
			r := NewRand(o.Seed, uint64(3600+k))
			in := c16Input{Kind: "flight"}
			in.Flights = append(in.Flights, c16GenFlight(r, "x"))
			if r.IntN(3) == 0 {
				in.Flights = append(in.Flights, c16GenFlight(r, "y"))
			}
			for fi := range in.Flights {
				f := &in.Flights[fi]
				f.Scripts[0] = c16Script{Kind: "ans", Delay: int64(5 + 10*r.IntN(200)), Tok: 1 + r.IntN(50)}
				if r.IntN(4) != 0 {
					f.CacheFail = 1 + r.IntN(2)
				}
				for ci := range f.Callers { // nobody gives up before the answer
					if r.IntN(3) != 0 {
						f.Callers[ci].Dl, f.Callers[ci].Cn = 0, 0
					}
				}
			}
			recs := runOne(in, false)
			for _, rec := range recs {
				if ob := rec.Obs.(c16FlightObs); len(cacheSelf) < 5 && ob.FlSeen && !ob.FlOK {
					cacheSelf = append(cacheSelf, rec)
				}
			}
		}
		// self-test for the cache observables
		for i, rec := range cacheSelf {
			st := rec
			st.SelfTest, st.SelfOf = true, rec.ID
			in := rec.Input.(c16Input)
			if rec.Kind == "policy" {
				// pretend the lookup failed because the cache refused the write
				st.Coq = c16RenderPolicy(in, "(Some (7, 5))", 3, 1, 0, true, 0, true, false) + " 950 0"
			} else {
				ob := rec.Obs.(c16FlightObs)
				fi := 0
				for j, f := range in.Flights {
					if f.Name == ob.Name {
						fi = j
					}
				}
				switch i % 3 {
				case 0:
					ob.FlCached = true // the refused document is in the cache all the same
				case 1:
					ob.AfterReq = !ob.AfterReq // the next lookup sends a request although the name is installed
				default:
					ob.FlTok++ // the document offered to the cache carries other bytes
				}
				st.Coq, _ = c16RenderFlightK(in.Flights[fi], ob, in.HTTP)
			}
			out.Emit(st)
		}
		// self-test: one observable altered
		for i, rec := range selfSrc {
			st := rec
			st.SelfTest, st.SelfOf = true, rec.ID
			if rec.Kind == "late" {
				// pretend the store served the late flight's answer (the unnotified overwrite of F8)
				st.Coq = fmt.Sprintf("CLate %s %s (Some (7, 5)) (Some (8, 6)) true 0 5 0 6 1 6 8", c16Decl, coqBytes([]byte("x")))
			} else if rec.Kind == "policy" {
				in := rec.Input.(c16Input)
				// pretend the refused lookup had sent a request
				st.Coq = c16RenderPolicy(in, "(Some (7, 5))", 3, 1, 0, false, 0, false, false) + " 950 0"
			} else {
				in := rec.Input.(c16Input)
				ob := rec.Obs.(c16FlightObs)
				ob2 := ob
				ob2.Results = append([]c16Res(nil), ob.Results...)
				switch i % 3 {
				case 0:
					ob2.Results[0].T += 10 // a caller that returned later than it did
				case 1:
					ob2.MaxConc = 2 // two requests in flight
				default:
					ob2.Secret = !ob.Secret // Secret(name) afterwards
				}
				st.Coq, _ = c16RenderFlightK(in.Flights[0], ob2, in.HTTP)
			}
			out.Emit(st)
		}
	})
}
