package main

// C17: the real periodicBackup loop (through the verif hook server.VerifRunPeriodicBackup)
// in a testing/synctest bubble: virtual time, an in-memory object store behind the real
// S3 client, database writes at scripted instants (also from inside the store's handler:
// a write racing the upload), scripted upload durations and failures, cancellation at a
// scripted instant.  Observed: every request the store received (virtual instant, which
// file version the body is byte-identical to, whether the body opens with the key, whether
// it was acknowledged) and the instant the task returned.  A loop that spins never lets the
// bubble's clock advance: a real-time watchdog outside the bubble reports that.

import (
	"bytes"
	"context"
	"crypto/sha256"
	"encoding/json"
	"fmt"
	"io"
	"net/http"
	"os"
	"os/exec"
	"path/filepath"
	"sort"
	"strings"
	"sync"
	"sync/atomic"
	"testing"
	"time"

	"github.com/aws/aws-sdk-go-v2/aws"
	"github.com/aws/aws-sdk-go-v2/credentials"
	"github.com/aws/aws-sdk-go-v2/service/s3"
	"github.com/tailscale/setec/audit"
	"github.com/tailscale/setec/db"
	"github.com/tailscale/setec/server"
	"github.com/tailscale/setec/types/api"
	"github.com/tink-crypto/tink-go/v2/tink"
)

func init() {
	commands["C17"] = runC17
	commands["C17child"] = runC17Child
}

type c17Upl struct {
	Dur  uint64 `json:"dur"` // ms the store takes to answer
	OK   bool   `json:"ok"`
	Race int    `json:"race,omitempty"` // database writes made while the request is being handled
}

type c17Input struct {
	Kind   string   `json:"kind"`
	Writes []uint64 `json:"writes,omitempty"` // legacy: instants (ms) of puts of fresh values on "k"
	Fails  []uint64 `json:"fails,omitempty"`  // legacy: instants of such puts whose save fails (state directory unreachable)
	Ops    []c17Op  `json:"ops,omitempty"`    // the clients' mutating calls; whether one is a write is the MODEL's verdict
	Reads  []uint64 `json:"reads,omitempty"` // instants of client reads (list, get, info)
	Reopen bool     `json:"reopen,omitempty"` // a restart: the database file exists already when this lifetime's db.Open runs
	Prior  []c17Op  `json:"prior,omitempty"`  // with Reopen: the calls of the earlier lifetime (instants ignored)
	Wiring string   `json:"wiring,omitempty"` // "" = the loop through the verif hook in virtual time; "db" / "path" = the task as started by the real server.New (Config.DB / Config.DBPath+Key+AuditLog), observed in REAL time
	Until  uint64   `json:"until,omitempty"`  // wiring: real ms until which the object store is watched
	ReadFaults []c17Fault `json:"read_faults,omitempty"` // intervals during which the database file cannot be read
	Script []c17Upl `json:"script"`
	Cancel uint64   `json:"cancel"` // instant (ms) the context is cancelled
}

// c17Op is one mutating client call at a virtual instant.
type c17Op struct {
	T    uint64 `json:"t"`
	Kind string `json:"kind"` // put activate delver del
	Name string `json:"name"`
	Ver  uint32 `json:"ver,omitempty"`
	Val  int    `json:"val,omitempty"` // value token
	Fail bool   `json:"fail,omitempty"` // the state directory is unreachable during the call: a save fails
}

// allOps: legacy fields and Ops as one list in time order.
func (in c17Input) allOps() []c17Op {
	var out []c17Op
	for i, w := range in.Writes {
		out = append(out, c17Op{T: w, Kind: "put", Name: "k", Val: 1000 + i})
	}
	for i, w := range in.Fails {
		out = append(out, c17Op{T: w, Kind: "put", Name: "k", Val: 2000 + i, Fail: true})
	}
	out = append(out, in.Ops...)
	sort.SliceStable(out, func(i, j int) bool { return out[i].T < out[j].T })
	return out
}

func c17Val(v int) []byte { return []byte(fmt.Sprintf("value-%d", v)) }

// c17Fault: from Lo to Hi (ms, inclusive) the database file is not where it should be: "moved" = renamed
// aside (ENOENT), "dir" = renamed aside and a directory put in its place (EISDIR); put back at Hi.
type c17Fault struct {
	Lo   uint64 `json:"lo"`
	Hi   uint64 `json:"hi"`
	Kind string `json:"kind"`
}

func c17FaultApply(path string, f c17Fault) error {
	if err := os.Rename(path, path+".aside"); err != nil {
		return err
	}
	if f.Kind == "dir" {
		return os.Mkdir(path, 0700)
	}
	return nil
}

func c17FaultUndo(path string, f c17Fault) error {
	if f.Kind == "dir" {
		if err := os.Remove(path); err != nil {
			return err
		}
	}
	return os.Rename(path+".aside", path)
}

func coqFaults(fs []c17Fault) string {
	parts := make([]string, len(fs))
	for i, f := range fs {
		parts[i] = fmt.Sprintf("(%d,%d)", f.Lo, f.Hi)
	}
	return coqList(parts)
}

type c17Upload struct {
	T      uint64 `json:"t"`
	Gen    uint64 `json:"gen"` // generation of the file version the body equals; 0 = none
	OK     bool   `json:"ok"`
	Opens  bool   `json:"opens"` // the body decodes with the database key
	Bid    uint64 `json:"bid"`   // identifier of the body's bytes (first-seen order, exact comparison)
	Len    int    `json:"len"`   // length of the body
	Bucket string `json:"bucket,omitempty"`
	Key    string `json:"key,omitempty"`
}

type c17Obs struct {
	Uploads  []c17Upload `json:"uploads"`
	Exited   bool        `json:"exited"`
	Exit     uint64      `json:"exit"`
	FinalGen uint64      `json:"final_gen"`
	FinalBid uint64      `json:"final_bid"` // identifier of the live file's bytes at the end (0 = never uploaded)
	Racing   uint64      `json:"racing"`
	Note     string      `json:"note,omitempty"`
}

// ---- the object store ----

type c17Store struct {
	mu      sync.Mutex
	env     *dbEnv
	start   time.Time
	script  []c17Upl
	n       int
	ups     []c17Upload
	vers    map[[32]byte]uint64
	bodies  map[[32]byte]uint64
	racing  uint64
	wseq    *int
	note    string
}

func (s *c17Store) recordVersion() {
	bs, err := os.ReadFile(s.env.path)
	if err != nil {
		return
	}
	h := sha256.Sum256(bs)
	if _, ok := s.vers[h]; !ok {
		s.vers[h] = s.env.d.WriteGen()
	}
}

// dbWrite makes one database write from the store's side (a put of a fresh value on a secret
// of its own, which no client call touches) and records the file version.
func (s *c17Store) dbWrite() {
	*s.wseq++
	_, err := s.env.d.Put(s.env.super, "r", c17Val(1000000+*s.wseq))
	if err != nil {
		s.note += "write failed: " + err.Error() + "; "
	}
	s.recordVersion()
}

// dbOp performs one client call; with Fail the state directory is unreachable while it runs
// (as in the C03/C04 histories) and restored at once.
func (s *c17Store) dbOp(op c17Op) {
	hidden := s.env.state + ".hidden"
	if op.Fail {
		if err := os.Rename(s.env.state, hidden); err != nil {
			s.note += "hide state dir: " + err.Error() + "; "
			return
		}
	}
	d, c := s.env.d, s.env.super
	switch op.Kind {
	case "put":
		d.Put(c, op.Name, c17Val(op.Val))
	case "activate":
		d.Activate(c, op.Name, api.SecretVersion(op.Ver))
	case "delver":
		d.DeleteVersion(c, op.Name, api.SecretVersion(op.Ver))
	case "del":
		d.Delete(c, op.Name)
	default:
		s.note += "unknown op " + op.Kind + "; "
	}
	if op.Fail {
		if err := os.Rename(hidden, s.env.state); err != nil {
			s.note += "restore state dir: " + err.Error() + "; "
		}
	}
	s.recordVersion()
}

// dbReads: what clients do all day.
func (s *c17Store) dbReads() {
	s.env.d.List(s.env.super)
	s.env.d.Get(s.env.super, "k")
	s.env.d.Info(s.env.super, "k")
	s.env.d.GetVersion(s.env.super, "k", 1)
	s.env.d.GetConditional(s.env.super, "k", 1)
	s.recordVersion()
}

func (s *c17Store) Do(req *http.Request) (*http.Response, error) {
	var body []byte
	if req.Body != nil {
		body, _ = io.ReadAll(req.Body)
		req.Body.Close()
	}
	s.mu.Lock()
	k := s.n
	s.n++
	e := c17Upl{OK: true}
	if k < len(s.script) {
		e = s.script[k]
	}
	up := c17Upload{T: uint64(time.Since(s.start) / time.Millisecond)}
	if req.Method != "PUT" {
		s.note += "unexpected " + req.Method + " " + req.URL.String() + "; "
	}
	parts := strings.SplitN(strings.TrimPrefix(req.URL.Path, "/"), "/", 2)
	up.Bucket = strings.SplitN(req.URL.Host, ".", 2)[0]
	up.Key = req.URL.Path
	_ = parts
	bh := sha256.Sum256(body)
	if g, ok := s.vers[bh]; ok {
		up.Gen = g
	}
	if _, ok := s.bodies[bh]; !ok {
		s.bodies[bh] = uint64(len(s.bodies) + 1)
	}
	up.Bid = s.bodies[bh]
	up.Len = len(body)
	if _, err := decodeFileBytes(s.env.dir, body, s.env.kek.inner); err == nil {
		up.Opens = true
	}
	for i := 0; i < e.Race; i++ {
		s.dbWrite()
		s.racing++
	}
	idx := len(s.ups)
	s.ups = append(s.ups, up)
	s.mu.Unlock()
	select {
	case <-time.After(time.Duration(e.Dur) * time.Millisecond):
	case <-req.Context().Done():
		return nil, req.Context().Err()
	}
	if !e.OK {
		return &http.Response{StatusCode: 500, Status: "500 Internal Server Error", Header: http.Header{"Content-Type": []string{"application/xml"}},
			Body: io.NopCloser(strings.NewReader(`<?xml version="1.0" encoding="UTF-8"?><Error><Code>InternalError</Code><Message>scripted failure</Message></Error>`)), Request: req}, nil
	}
	s.mu.Lock()
	s.ups[idx].OK = true
	s.mu.Unlock()
	return &http.Response{StatusCode: 200, Status: "200 OK", Header: http.Header{"Etag": []string{`"0123456789abcdef0123456789abcdef"`}},
		Body: io.NopCloser(strings.NewReader("")), Request: req}, nil
}

// decodeFileBytes: does this byte string open as a database file with the key?
func decodeFileBytes(dir string, bs []byte, kek tink.AEAD) (int, error) {
	tmp, err := os.CreateTemp(dir, "c17body")
	if err != nil {
		return 0, err
	}
	defer os.Remove(tmp.Name())
	tmp.Write(bs)
	tmp.Close()
	d, err := decodeFile(tmp.Name(), kek)
	return len(d), err
}

// ---- one scenario inside a bubble ----

var c17Beat atomic.Int64 // real time (unix nano) at which the current scenario started; 0 = none

func runC17Scenario(t *testing.T, work string, idx int, in c17Input) c17Obs {
	var obs c17Obs
	c17Beat.Store(realNow())
	defer c17Beat.Store(0)
	stuck := false
	bubble(t, func(t *testing.T) {
		env, err := newDBEnv(filepath.Join(work, fmt.Sprintf("c17_%d", idx%4)))
		if err != nil {
			obs.Note = "cannot create the database: " + err.Error()
			return
		}
		defer env.close()
		env.sink.mu.Lock()
		env.sink.quiet = true
		env.sink.mu.Unlock()
		if in.Reopen {
			if err := c17Restart(env, in.Prior); err != nil {
				obs.Note = "cannot reopen the database: " + err.Error()
				return
			}
		}
		wseq := 0
		st := &c17Store{env: env, start: time.Now(), script: in.Script, vers: map[[32]byte]uint64{}, bodies: map[[32]byte]uint64{}, wseq: &wseq}
		st.recordVersion()
		client := s3.New(s3.Options{
			HTTPClient:       st,
			Region:           "us-east-1",
			Credentials:      credentials.NewStaticCredentialsProvider("AKIDEXAMPLE", "secret", ""),
			RetryMaxAttempts: 1,
			Retryer:          aws.NopRetryer{},
		})
		// the intervals in which the file cannot be read (one goroutine each; an interval starting at 0
		// begins before the task does)
		var fwg sync.WaitGroup
		for _, f := range in.ReadFaults {
			if f.Lo == 0 {
				if err := c17FaultApply(env.path, f); err != nil {
					obs.Note += "fault: " + err.Error() + "; "
				}
			}
			fwg.Add(1)
			go func(f c17Fault) {
				defer fwg.Done()
				if f.Lo > 0 {
					time.Sleep(time.Duration(f.Lo)*time.Millisecond - time.Since(st.start))
					if err := c17FaultApply(env.path, f); err != nil {
						st.mu.Lock()
						st.note += "fault: " + err.Error() + "; "
						st.mu.Unlock()
					}
				}
				time.Sleep(time.Duration(f.Hi)*time.Millisecond - time.Since(st.start))
				if err := c17FaultUndo(env.path, f); err != nil {
					st.mu.Lock()
					st.note += "fault undo: " + err.Error() + "; "
					st.mu.Unlock()
				}
			}(f)
		}
		ctx, cancel := context.WithCancel(context.Background())
		done := make(chan struct{})
		go func() {
			defer close(done)
			server.VerifRunPeriodicBackup(ctx, env.d, client, "backups")
			obs.Exit = uint64(time.Since(st.start) / time.Millisecond)
			obs.Exited = true
		}()
		// the clients' writes
		wdone := make(chan struct{})
		go func() {
			defer close(wdone)
			type ev struct {
				t    uint64
				op   *c17Op
			}
			var evs []ev
			ops := in.allOps()
			for i := range ops {
				evs = append(evs, ev{ops[i].T, &ops[i]})
			}
			for _, w := range in.Reads {
				evs = append(evs, ev{w, nil})
			}
			sort.SliceStable(evs, func(i, j int) bool { return evs[i].t < evs[j].t })
			for _, e := range evs {
				d := time.Duration(e.t)*time.Millisecond - time.Since(st.start)
				if d > 0 {
					time.Sleep(d)
				}
				st.mu.Lock()
				if e.op != nil {
					st.dbOp(*e.op)
				} else {
					st.dbReads()
				}
				st.mu.Unlock()
			}
		}()
		time.Sleep(time.Duration(in.Cancel)*time.Millisecond - time.Since(st.start))
		cancel()
		select {
		case <-done:
		case <-time.After(20 * time.Minute): // virtual
			stuck = true
		}
		<-wdone
		fwg.Wait()
		st.mu.Lock()
		obs.Uploads = append([]c17Upload(nil), st.ups...)
		obs.Racing = st.racing
		obs.Note += st.note
		st.mu.Unlock()
		obs.FinalGen = env.d.WriteGen()
		if bs, err := os.ReadFile(env.path); err == nil {
			obs.FinalBid = st.bodies[sha256.Sum256(bs)]
		}
		if stuck {
			obs.Note += "the task had not returned 20 virtual minutes after cancellation; "
		}
	})
	return obs
}

func realNow() int64 { return time.Now().UnixNano() }

// c17Restart: the earlier lifetime (its calls on the first handle), then that handle is dropped and the
// existing file is opened again with db.Open, as a restarted process does.
func c17Restart(env *dbEnv, prior []c17Op) error {
	tmp := &c17Store{env: env, vers: map[[32]byte]uint64{}, bodies: map[[32]byte]uint64{}}
	for _, op := range prior {
		tmp.dbOp(op)
	}
	d, err := db.Open(env.path, env.kek, audit.New(env.sink))
	if err != nil {
		return err
	}
	env.d = d
	return nil
}

func coqEvs(ops []c17Op) string {
	evs := make([]string, len(ops))
	for i, op := range ops {
		n := coqBytes([]byte(op.Name))
		switch op.Kind {
		case "put":
			evs[i] = fmt.Sprintf("EPut %d %s %s %d", op.T, coqBool(!op.Fail), n, op.Val)
		case "activate":
			evs[i] = fmt.Sprintf("EAct %d %s %s %d", op.T, coqBool(!op.Fail), n, op.Ver)
		case "delver":
			evs[i] = fmt.Sprintf("EDelV %d %s %s %d", op.T, coqBool(!op.Fail), n, op.Ver)
		default:
			evs[i] = fmt.Sprintf("EDel %d %s %s", op.T, coqBool(!op.Fail), n)
		}
	}
	return coqList(evs)
}

// ---- Gallina ----

func coqC17(in c17Input, obs c17Obs) string {
	sc := make([]string, len(in.Script))
	for i, e := range in.Script {
		sc[i] = fmt.Sprintf("U %d %s %d", e.Dur, coqBool(e.OK), e.Race)
	}
	bids := make([]uint64, len(obs.Uploads))
	ups := make([]string, len(obs.Uploads))
	for i, u := range obs.Uploads {
		bids[i] = u.Bid
		g := u.Gen
		if !u.Opens {
			g = 0 // a body that does not open with the key is no file version
		}
		ups[i] = fmt.Sprintf("(%d,%d,%s)", u.T, g, coqBool(u.OK))
	}
	prior := "[]"
	if in.Reopen {
		prior = coqEvs(in.Prior)
	}
	if in.Wiring != "" {
		return fmt.Sprintf("ScW %s %s %s %d %s %s %d %d %s", prior, coqEvs(in.allOps()), coqNList(in.Reads), in.Cancel,
			coqList(ups), coqNList(bids), obs.FinalGen, obs.FinalBid, coqFaults(in.ReadFaults))
	}
	return fmt.Sprintf("Sc %s %s %s %s %d %s %s %s %d %d %d %s", prior, coqEvs(in.allOps()), coqNList(in.Reads), coqList(sc), in.Cancel,
		coqList(ups), coqNList(bids), coqOpt(coqN(obs.Exit), obs.Exited), obs.FinalGen, obs.Racing, obs.FinalBid, coqFaults(in.ReadFaults))
}

func c17Record(in c17Input, obs c17Obs) Record {
	fails, races, ok := 0, 0, 0
	for i, u := range obs.Uploads {
		if !u.OK {
			fails++
		} else {
			ok++
		}
		if i < len(in.Script) && in.Script[i].Race > 0 {
			races++
		}
	}
	tags := map[string]bool{"kind:" + in.Kind: true}
	tags[fmt.Sprintf("uploads:%d", min(len(obs.Uploads)/3*3, 12))] = true
	if fails > 0 {
		tags["has-failed-upload"] = true
	}
	if races > 0 {
		tags["has-racing-write"] = true
	}
	ops := in.allOps()
	nfail := 0
	for _, op := range ops {
		tags["op:"+op.Kind] = true
		if op.Fail {
			nfail++
		}
	}
	if len(ops) == 0 {
		tags["no-writes"] = true
	} else {
		tags["last-op:"+ops[len(ops)-1].Kind] = true
	}
	if nfail > 0 {
		tags["has-failed-write"] = true
	}
	switch {
	case in.Reopen && len(ops) == 0:
		tags["lifetime:restart-existing-file,no-call-in-this-lifetime"] = true
	case in.Reopen:
		tags["lifetime:restart-existing-file,calls-later"] = true
	default:
		tags["lifetime:fresh-file"] = true
	}
	if in.Wiring != "" {
		tags["started-by:server.New("+in.Wiring+"),real-time"] = true
	} else {
		tags["started-by:verif-hook,virtual-time"] = true
	}
	// a read fault matters when a backup was due inside it: no request then, although one minute
	// earlier/later there is one (counted from the observed log: a gap of two periods around it)
	for _, f := range in.ReadFaults {
		tags["read-fault:"+f.Kind] = true
		if f.Lo == 0 {
			tags["read-fault:at-start-up"] = true
		}
		for _, u := range obs.Uploads {
			if u.T == f.Lo+1+60000 || (f.Lo == 0 && u.T == 60000) {
				tags["read-fault:upload-one-period-after-the-fault"] = true
			}
		}
	}
	if len(in.ReadFaults) == 0 {
		tags["read-fault:none"] = true
	}
	if len(in.Reads) > 0 {
		tags["has-reads"] = true
	}
	inflight := false
	for _, u := range obs.Uploads {
		if !u.OK && obs.Exited && u.T <= in.Cancel {
			inflight = true
		}
	}
	_ = inflight
	kb, _ := json.Marshal(in)
	rec := Record{Kind: "scenario", Input: in, Obs: obs, Key: string(kb), Tags: sortedKeys(tags),
		Nontrivial: (len(obs.Uploads) >= 3 && len(ops) >= 2) || (nfail >= 2 && len(obs.Uploads) >= 1) || in.Reopen || in.Wiring != "", Coq: coqC17(in, obs)}
	for _, u := range obs.Uploads {
		if u.Len == 0 {
			rec.Direct = &DirectVerdict{OK: false, What: fmt.Sprintf("an EMPTY object was uploaded at %d ms (key %q)", u.T, u.Key)}
		}
		if in.Wiring == "" && u.Bucket != "backups" && !strings.Contains(u.Key, "backups") {
			rec.Direct = &DirectVerdict{OK: false, What: fmt.Sprintf("upload went to %q %q, not to the configured bucket", u.Bucket, u.Key)}
		}
	}
	return rec
}

// ---- generation ----

func genC17(seed uint64, i int) c17Input {
	r := NewRand(seed, uint64(170000+i))
	kinds := []string{"bursts", "idle-hours", "failures", "racing", "slow-uploads", "cancel-early", "mixed", "mixed", "failed-writes", "failed-writes", "read-faults", "read-faults"}
	in := c17Input{Kind: kinds[r.IntN(len(kinds))]}
	// instants: writes at x*1000+500 (+ a few ms), durations in whole seconds, cancellation at
	// ...+700: no two events of the timeline fall on the same instant
	horizon := uint64(600 + r.IntN(1800)) // seconds
	switch in.Kind {
	case "idle-hours":
		horizon = uint64(7200 + r.IntN(30000))
	case "cancel-early":
		horizon = uint64(1 + r.IntN(200))
	}
	sh := newC17Shadow()
	restartIdle := false
	if r.IntN(4) == 0 { // a restart: an earlier lifetime left the file
		in.Reopen = true
		for k := r.IntN(7); k > 0; k-- {
			op := sh.gen(r, false)
			sh.apply(op)
			in.Prior = append(in.Prior, op)
		}
		restartIdle = r.IntN(5) < 2 // and in this lifetime nobody calls
	}
	lastT := uint64(0)
	t := uint64(0)
	nw := r.IntN(12)
	if in.Kind == "bursts" {
		nw = 8 + r.IntN(20)
	}
	if in.Kind == "failed-writes" {
		nw = 6 + r.IntN(14)
	}
	if restartIdle {
		nw = 0
	}
	for k := 0; k < nw; k++ {
		var gap uint64
		switch {
		case in.Kind == "bursts" && r.IntN(4) != 0:
			gap = uint64(r.IntN(5))
		case in.Kind == "idle-hours" && r.IntN(3) == 0:
			gap = uint64(3600 + r.IntN(7200))
		default:
			gap = uint64(r.IntN(240))
		}
		t += gap
		w := t*1000 + 500 + uint64(k%7)
		if w <= lastT {
			w = lastT + 1
		}
		if w/1000 >= horizon {
			break
		}
		// what happens at this instant: a successful write, a write whose save fails (x.300 s)
		// or reads (x.400 s); in the failed-writes kind most events change nothing
		p := r.IntN(100)
		failP, readP := 12, 12
		if in.Kind == "failed-writes" {
			failP, readP = 45, 30
		}
		switch {
		case p < failP:
			op := sh.gen(r, false)
			op.T, op.Fail = w, true
			in.Ops = append(in.Ops, op)
			lastT = w
		case p < failP+readP:
			in.Reads = append(in.Reads, t*1000+400+uint64(k%7))
		default:
			op := sh.gen(r, false)
			op.T = w
			sh.apply(op)
			in.Ops = append(in.Ops, op)
			lastT = w
		}
	}
	// often the LAST change is not a put: a delete-version, an activate or a delete, then quiet
	if !restartIdle && r.IntN(2) == 0 && t+400 < horizon {
		op := sh.gen(r, true)
		op.T = (t+1+uint64(r.IntN(100)))*1000 + 500
		if op.T > lastT {
			sh.apply(op)
			in.Ops = append(in.Ops, op)
		}
	}
	ns := r.IntN(6)
	if in.Kind == "failures" || in.Kind == "racing" || in.Kind == "slow-uploads" {
		ns = 3 + r.IntN(8)
	}
	for k := 0; k < ns; k++ {
		e := c17Upl{OK: true}
		switch in.Kind {
		case "failures":
			e.OK = r.IntN(2) == 0
		case "racing":
			if r.IntN(2) == 0 {
				e.Race = 1 + r.IntN(2)
			}
			e.OK = r.IntN(5) != 0
		case "slow-uploads":
			e.Dur = uint64([]int{1, 20, 59, 61, 130, 299, 301, 400}[r.IntN(8)]) * 1000
			e.OK = r.IntN(4) != 0
		case "read-faults": // no durations: the task wakes on whole minutes, where the faults are put
			e.OK = r.IntN(4) != 0
			if r.IntN(5) == 0 {
				e.Race = 1
			}
		default:
			e.OK = r.IntN(4) != 0
			if r.IntN(3) == 0 {
				e.Dur = uint64(r.IntN(90)) * 1000
			}
			if r.IntN(5) == 0 {
				e.Race = 1
			}
		}
		in.Script = append(in.Script, e)
	}
	in.Cancel = horizon*1000 + 700
	if in.Kind == "cancel-early" && r.IntN(3) == 0 {
		in.Cancel = uint64(1 + r.IntN(900))
	}
	// failing READS of the database file: the file is moved aside (or a directory put in its place) from
	// 1 ms before to 1 ms after a whole minute - where the task wakes when uploads take no time - mostly
	// the minute after a call (a backup is due then), sometimes two minutes in a row, sometimes at
	// start-up, sometimes where nothing is due.  Calls fall on x.3-x.5 s: never inside an interval.
	if in.Kind == "read-faults" || r.IntN(5) == 0 {
		at := map[uint64]bool{}
		for _, op := range in.Ops {
			if in.Kind == "read-faults" && r.IntN(2) == 0 || r.IntN(6) == 0 {
				T := (op.T/60000 + 1) * 60000
				at[T] = true
				if r.IntN(3) == 0 {
					at[T+60000] = true
				}
			}
		}
		if r.IntN(3) == 0 {
			at[0] = true
			if r.IntN(3) == 0 {
				at[60000] = true
			}
		}
		if r.IntN(2) == 0 {
			at[uint64(1+r.IntN(int(horizon/60)+1))*60000] = true
		}
		var ts []uint64
		for T := range at {
			ts = append(ts, T)
		}
		sort.Slice(ts, func(i, j int) bool { return ts[i] < ts[j] })
		for _, T := range ts {
			f := c17Fault{Lo: T - 1, Hi: T + 1, Kind: []string{"moved", "dir"}[r.IntN(2)]}
			if T == 0 {
				f.Lo = 0
			}
			if f.Hi < in.Cancel {
				in.ReadFaults = append(in.ReadFaults, f)
			}
		}
	}
	return in
}

// c17Shadow: the generator's own rough idea of the store, only to aim the calls (mostly
// effective ones, some that change nothing); the verdict "is it a write" is the model's.
type c17Sec struct {
	vers   map[uint32]int
	active uint32
	latest uint32
}
type c17Shadow struct{ secs map[string]*c17Sec }

func newC17Shadow() *c17Shadow { return &c17Shadow{secs: map[string]*c17Sec{}} }

func (sh *c17Shadow) apply(op c17Op) {
	x := sh.secs[op.Name]
	switch op.Kind {
	case "put":
		if x == nil {
			sh.secs[op.Name] = &c17Sec{vers: map[uint32]int{1: op.Val}, active: 1, latest: 1}
			return
		}
		if v, ok := x.vers[x.latest]; ok && v == op.Val {
			return
		}
		x.latest++
		x.vers[x.latest] = op.Val
	case "activate":
		if x != nil {
			if _, ok := x.vers[op.Ver]; ok && op.Ver != 0 {
				x.active = op.Ver
			}
		}
	case "delver":
		if x != nil && op.Ver != x.active {
			delete(x.vers, op.Ver)
		}
	case "del":
		delete(sh.secs, op.Name)
	}
}

func (sh *c17Shadow) gen(r *randT, effectiveNonPut bool) c17Op {
	name := "k"
	if r.IntN(4) == 0 {
		name = "j"
	}
	x := sh.secs[name]
	if effectiveNonPut && x == nil {
		name = "k"
		x = sh.secs[name]
	}
	var others []uint32 // existing, not active
	if x != nil {
		for v := range x.vers {
			if v != x.active {
				others = append(others, v)
			}
		}
		sort.Slice(others, func(i, j int) bool { return others[i] < others[j] })
	}
	if effectiveNonPut && x != nil {
		switch k := r.IntN(5); {
		case k < 2 && len(others) > 0:
			return c17Op{Kind: "delver", Name: name, Ver: others[r.IntN(len(others))]}
		case k < 4 && len(others) > 0:
			return c17Op{Kind: "activate", Name: name, Ver: others[r.IntN(len(others))]}
		default:
			return c17Op{Kind: "del", Name: name}
		}
	}
	switch k := r.IntN(100); {
	case k < 42 || x == nil:
		op := c17Op{Kind: "put", Name: name, Val: 1 + r.IntN(5)}
		if x != nil && r.IntN(10) < 3 {
			if v, ok := x.vers[x.latest]; ok {
				op.Val = v // the bytes of the newest version: saves nothing
			}
		}
		return op
	case k < 64:
		op := c17Op{Kind: "activate", Name: name, Ver: uint32(r.IntN(5))}
		if len(others) > 0 && r.IntN(10) < 6 {
			op.Ver = others[r.IntN(len(others))]
		} else if r.IntN(3) == 0 {
			op.Ver = x.active // already active: saves nothing
		}
		return op
	case k < 84:
		op := c17Op{Kind: "delver", Name: name, Ver: uint32(r.IntN(5))}
		if len(others) > 0 && r.IntN(10) < 7 {
			op.Ver = others[r.IntN(len(others))]
		}
		return op
	default:
		op := c17Op{Kind: "del", Name: name}
		if r.IntN(4) == 0 {
			op.Name = "absent" // nothing to delete: saves nothing
		}
		return op
	}
}

// ---- child ----

type c17Part struct {
	Index int    `json:"index"`
	Obs   c17Obs `json:"obs"`
}

func runC17Child(o Opts) {
	inputs := readInputs[c17Input](o.Replay)
	f, err := os.Create(o.Out)
	if err != nil {
		fatal("create %s: %v", o.Out, err)
	}
	from := o.N
	// real-time watchdog, outside every bubble: virtual time only advances when all goroutines of
	// the bubble are blocked, so a loop that spins freezes the scenario in real time
	limit := 10 * time.Second // a scenario takes some 30 ms of real time
	if os.Getenv("C17_WATCHDOG_S") != "" {
		var n int
		fmt.Sscan(os.Getenv("C17_WATCHDOG_S"), &n)
		limit = time.Duration(n) * time.Second
	}
	go func() {
		for {
			time.Sleep(200 * time.Millisecond)
			if b := c17Beat.Load(); b != 0 && realNow()-b > int64(limit) {
				fmt.Fprintf(os.Stderr, "C17 WATCHDOG: the scenario made no progress for %v of real time (the backup task is spinning)\n", limit)
				os.Exit(77)
			}
		}
	}()
	inTest(func(t *testing.T) {
		for i := from; i < len(inputs); i++ {
			obs := runC17Scenario(t, o.Work, i, inputs[i])
			bs, _ := json.Marshal(c17Part{Index: i, Obs: obs})
			f.Write(append(bs, '\n'))
			f.Sync()
			if !obs.Exited {
				// the task's goroutine cannot be removed from the bubble: leave the process
				f.Close()
				os.Exit(78)
			}
		}
		f.Close()
	})
}

// ---- parent ----

func runC17(o Opts) {
	out := NewOut(o.Out)
	defer out.Close()
	var inputs []c17Input
	corpusN := 0
	if o.Replay != "" {
		inputs = readInputs[c17Input](o.Replay)
	} else {
		inputs = readCorpus[c17Input](o.Corpus)
		corpusN = len(inputs)
		n := 260
		if o.Tier == "thorough" {
			n = 6000
		}
		if o.N > 0 {
			n = o.N
		}
		for i := 0; i < n; i++ {
			inputs = append(inputs, genC17(o.Seed, i))
		}
	}
	// the scenarios through the real server.New run in real time, in this process, while the child works
	// through the virtual-time ones
	if o.Replay == "" && os.Getenv("VERIF_DEV_SKIP_REALTIME") == "" { // (development aid only; bin/check never sets it)
		inputs = append(inputs, c17WiringFamily(o.Seed)...)
	}
	wireDone := make(chan []Record, 1)
	{
		var wire []c17Input
		var rest []c17Input
		nc := 0
		for i, in := range inputs {
			if in.Wiring != "" {
				wire = append(wire, in)
			} else {
				rest = append(rest, in)
				if i < corpusN {
					nc++
				}
			}
		}
		inputs, corpusN = rest, nc
		go func() { wireDone <- runC17Wiring(o.Work, wire) }()
	}
	inFile := filepath.Join(o.Work, "c17_inputs.jsonl")
	{
		f, err := os.Create(inFile)
		if err != nil {
			fatal("create %s: %v", inFile, err)
		}
		for _, in := range inputs {
			bs, _ := json.Marshal(in)
			f.Write(append(bs, '\n'))
		}
		f.Close()
	}
	partFile := filepath.Join(o.Work, "c17_part.jsonl")
	from, crashes := 0, 0
	var self []Record
	for from < len(inputs) && crashes < 6 {
		os.Remove(partFile)
		cmd := exec.Command(os.Args[0], "C17child", "-replay", inFile, "-out", partFile, "-work", o.Work, "-n", fmt.Sprint(from))
		var stderr bytes.Buffer
		cmd.Stderr = &stderr
		cmd.Stdout = &stderr
		if o.Replay != "" { // re-runs (replay, shrinking): a shorter fuse
			cmd.Env = append(os.Environ(), "C17_WATCHDOG_S=4")
		}
		runErr := cmd.Run()
		next := from
		stuckLast := false
		if f, err := os.Open(partFile); err == nil {
			dec := json.NewDecoder(f)
			for {
				var p c17Part
				if err := dec.Decode(&p); err != nil {
					break
				}
				rec := c17Record(inputs[p.Index], p.Obs)
				if p.Index < corpusN {
					rec.Corpus = "corpus"
				}
				if !p.Obs.Exited && rec.Direct == nil {
					rec.Direct = &DirectVerdict{OK: false, What: "the backup task did not return within 20 virtual minutes of the cancellation of its context"}
					stuckLast = true
				}
				rec.ID = out.n
				out.Emit(rec)
				if len(self) < 8 && p.Index >= corpusN && len(p.Obs.Uploads) >= 2 && p.Obs.Exited && (p.Index-corpusN)%5 == 1 {
					self = append(self, rec)
				}
				next = p.Index + 1
			}
			f.Close()
		}
		if runErr == nil {
			break
		}
		if stuckLast {
			from = next
			continue
		}
		crashes++
		es := stderr.String()
		what := "the harness child process died: " + runErr.Error()
		switch {
		case strings.Contains(es, "C17 WATCHDOG"):
			what = "the backup task spins: virtual time could not advance (real-time watchdog)"
			crashes += 3 // one more scenario, then stop: every further one costs the watchdog's patience
		case strings.Contains(es, "panic:"):
			what = "panic"
		}
		if len(es) > 3000 {
			es = es[:3000]
		}
		if next < len(inputs) {
			out.Emit(Record{Kind: "scenario", Input: inputs[next], Key: fmt.Sprintf("crash-%d", next), Obs: map[string]string{"stderr": es},
				Tags: []string{"crash"}, Direct: &DirectVerdict{OK: false, What: what + " in this scenario: " + firstLines(es, 8)}})
		}
		from = next + 1
	}
	os.Remove(partFile)
	for _, rec := range <-wireDone {
		rec.ID = out.n
		out.Emit(rec)
	}
	// self-test: alter one observable of a real scenario
	for k, rec := range self {
		in := rec.Input.(c17Input)
		obs := rec.Obs.(c17Obs)
		obs.Uploads = append([]c17Upload(nil), obs.Uploads...)
		switch k % 4 {
		case 3: // identical bytes in two consecutive acknowledged uploads
			prev, done := -1, false
			for i := range obs.Uploads {
				if obs.Uploads[i].OK {
					if prev >= 0 {
						obs.Uploads[i].Bid = obs.Uploads[prev].Bid
						done = true
						break
					}
					prev = i
				}
			}
			if !done {
				obs.FinalGen++
			}
		case 0:
			obs.Uploads[len(obs.Uploads)-1].T += 1000
		case 1:
			obs.Uploads[1].Gen++
		case 2:
			obs.Exit += 60000
		}
		rec.Coq = coqC17(in, obs)
		rec.SelfTest, rec.SelfOf, rec.Obs = true, rec.ID, nil
		out.Emit(rec)
	}
}
