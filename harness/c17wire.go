package main

// C17, the real wiring: the backup task as started by server.New with a bucket configured.
// server.New builds its S3 client itself (config.LoadDefaultConfig + s3.NewFromConfig) and offers no
// way to hand it a client or a transport, so these scenarios run in REAL time: the SDK is pointed,
// through the process environment (AWS_ENDPOINT_URL, static keys), at an object store listening on a
// loopback socket inside this process.  Everything is New's own: the Config fields, the context it
// hands to the task, db.Open of an existing file when only a path is configured.  Observed: every
// PutObject that arrives (real instant, bucket, bytes); real instants are snapped to the model's grid
// (a multiple of the minute, if within the tolerance) before the kernel compares them with the model.
// The instant the task returns cannot be seen from outside; that nothing arrives after the server's
// context ended can.  All scenarios run side by side, so the family costs a little over one minute.

import (
	"context"
	"crypto/sha256"
	"fmt"
	"io"
	"net/http"
	"net/http/httptest"
	"os"
	"path/filepath"
	"strings"
	"sync"
	"time"

	"github.com/tailscale/setec/audit"
	"github.com/tailscale/setec/server"
	"tailscale.com/client/tailscale/apitype"
)

const c17WireTolerance = 3500 // ms a real upload may lag behind its instant on the model's grid

// c17WiringFamily: the fixed family (the calls vary with the seed).
func c17WiringFamily(seed uint64) []c17Input {
	r := NewRand(seed, 171717)
	mk := func(kind string, wiring string, reopen bool, prior []c17Op, ops []c17Op, cancel uint64) c17Input {
		return c17Input{Kind: kind, Wiring: wiring, Reopen: reopen, Prior: prior, Ops: ops, Cancel: cancel, Until: 65000}
	}
	two := []c17Op{{Kind: "put", Name: "k", Val: 1}, {Kind: "put", Name: "k", Val: 2}}
	lateKinds := []c17Op{{T: 4000, Kind: "delver", Name: "k", Ver: 2}, {T: 4000, Kind: "activate", Name: "k", Ver: 2}, {T: 4000, Kind: "put", Name: "k", Val: 3}, {T: 4000, Kind: "del", Name: "k"}}
	return []c17Input{
		mk("wiring:first-upload,context-ends-early", "db", false, nil, nil, 8000),
		mk("wiring:write-then-context-ends,nothing-after", "db", false, nil, []c17Op{{T: 4000, Kind: "put", Name: "k", Val: 1}}, 8000),
		mk("wiring:write-uploaded-one-interval-later", "db", false, nil, []c17Op{{T: 4000, Kind: "put", Name: "k", Val: 1 + r.IntN(4)}}, 64500),
		mk("wiring:quiet-for-an-interval", "db", false, nil, nil, 64500),
		mk("wiring:restart-opened-by-New,no-call", "path", true, two, nil, 64500),
		mk("wiring:restart-handle-given,late-change-b", "db", true, two, []c17Op{lateKinds[r.IntN(len(lateKinds))]}, 64500),
		mk("wiring:restart-handle-given,no-call,context-ends-early", "db", true, two, nil, 8000),
		mk("wiring:restart-handle-given,late-change", "db", true, two, []c17Op{lateKinds[r.IntN(len(lateKinds))]}, 64500),
		func() c17Input {
			in := mk("wiring:first-read-fails,retried-one-interval-later", "db", true, two, nil, 64500)
			in.ReadFaults = []c17Fault{{Lo: 0, Hi: 3000, Kind: []string{"moved", "dir"}[r.IntN(2)]}}
			return in
		}(),
		mk("wiring:restart-handle-given,late-change,context-ends-early", "db", true, two, []c17Op{lateKinds[r.IntN(len(lateKinds))]}, 8000),
	}
}

type c17WireRec struct {
	mu    sync.Mutex
	start time.Time
	ups   []c17Upload
	raw   [][32]byte
}

type c17WireStore struct {
	mu      sync.Mutex
	buckets map[string]*c17WireRec
	stray   []string
}

func (ws *c17WireStore) ServeHTTP(w http.ResponseWriter, req *http.Request) {
	body, _ := io.ReadAll(req.Body)
	now := time.Now()
	bucket, key := "", req.URL.Path
	if host := strings.SplitN(req.Host, ":", 2)[0]; strings.HasPrefix(host, "c17w") {
		bucket = strings.SplitN(host, ".", 2)[0]
	} else {
		parts := strings.SplitN(strings.TrimPrefix(req.URL.Path, "/"), "/", 2)
		bucket = parts[0]
		if len(parts) > 1 {
			key = "/" + parts[1]
		}
	}
	if te := req.Header.Get("Content-Encoding"); strings.Contains(te, "aws-chunked") {
		body = c17Dechunk(body)
	}
	ws.mu.Lock()
	rec := ws.buckets[bucket]
	if rec == nil || req.Method != "PUT" {
		ws.stray = append(ws.stray, req.Method+" "+req.Host+req.URL.String())
	}
	ws.mu.Unlock()
	if rec != nil && req.Method == "PUT" {
		rec.mu.Lock()
		rec.ups = append(rec.ups, c17Upload{T: uint64(now.Sub(rec.start) / time.Millisecond), OK: true, Bucket: bucket, Key: key, Len: len(body)})
		rec.raw = append(rec.raw, sha256.Sum256(body))
		rec.mu.Unlock()
	}
	w.Header().Set("ETag", `"0123456789abcdef0123456789abcdef"`)
	w.WriteHeader(200)
}

// c17Dechunk undoes the aws-chunked framing (hex size[;ext] CRLF data CRLF ... 0 CRLF trailers).
func c17Dechunk(b []byte) []byte {
	var out []byte
	for len(b) > 0 {
		i := strings.Index(string(b), "\r\n")
		if i < 0 {
			return out
		}
		var n int
		fmt.Sscanf(strings.SplitN(string(b[:i]), ";", 2)[0], "%x", &n)
		b = b[i+2:]
		if n == 0 || n > len(b) {
			return out
		}
		out = append(out, b[:n]...)
		b = b[n:]
		if len(b) >= 2 {
			b = b[2:]
		}
	}
	return out
}

func runC17Wiring(work string, inputs []c17Input) []Record {
	if len(inputs) == 0 {
		return nil
	}
	store := &c17WireStore{buckets: map[string]*c17WireRec{}}
	srv := httptest.NewServer(store)
	defer srv.Close()
	// what server.New's own client construction reads
	os.Setenv("AWS_ENDPOINT_URL", srv.URL)
	os.Setenv("AWS_ACCESS_KEY_ID", "AKIDEXAMPLE")
	os.Setenv("AWS_SECRET_ACCESS_KEY", "secret")
	os.Unsetenv("AWS_SESSION_TOKEN")
	os.Unsetenv("AWS_PROFILE")
	os.Setenv("AWS_EC2_METADATA_DISABLED", "true")
	os.Setenv("AWS_CONFIG_FILE", filepath.Join(work, "no-aws-config"))
	os.Setenv("AWS_SHARED_CREDENTIALS_FILE", filepath.Join(work, "no-aws-credentials"))
	out := make([]Record, len(inputs))
	var wg sync.WaitGroup
	for i, in := range inputs {
		wg.Add(1)
		go func(i int, in c17Input) {
			defer wg.Done()
			out[i] = runC17WiringOne(work, i, in, store)
		}(i, in)
	}
	wg.Wait()
	store.mu.Lock()
	stray := append([]string(nil), store.stray...)
	store.mu.Unlock()
	if len(stray) > 0 && len(out) > 0 && out[0].Direct == nil {
		out[0].Direct = &DirectVerdict{OK: false, What: fmt.Sprintf("the object store received requests that are no PutObject into a configured bucket: %.300q", stray)}
	}
	return out
}

func runC17WiringOne(work string, i int, in c17Input, store *c17WireStore) Record {
	fail := func(what string) Record {
		return Record{Kind: "scenario", Input: in, Key: fmt.Sprintf("wiring-%d", i), Tags: []string{"kind:" + in.Kind},
			Direct: &DirectVerdict{OK: false, What: what}}
	}
	env, err := newDBEnv(filepath.Join(work, fmt.Sprintf("c17w_%d", i)))
	if err != nil {
		return fail("cannot create the database: " + err.Error())
	}
	defer env.close()
	env.sink.mu.Lock()
	env.sink.quiet = true
	env.sink.mu.Unlock()
	if in.Reopen {
		if err := c17Restart(env, in.Prior); err != nil {
			return fail("cannot reopen the database: " + err.Error())
		}
	}
	bucket := fmt.Sprintf("c17w%d", i)
	rec := &c17WireRec{}
	store.mu.Lock()
	store.buckets[bucket] = rec
	store.mu.Unlock()
	vers := map[[32]byte]uint64{}
	cfg := server.Config{
		Mux:                http.NewServeMux(),
		WhoIs:              func(context.Context, string) (*apitype.WhoIsResponse, error) { return nil, fmt.Errorf("nobody") },
		BackupBucket:       bucket,
		BackupBucketRegion: "us-east-1",
	}
	if in.Wiring == "path" {
		// New opens the (existing) file itself; the harness keeps no handle of its own on it
		cfg.DBPath, cfg.Key, cfg.AuditLog = env.path, env.kek, audit.New(env.sink)
		env.d = nil
	} else {
		cfg.DB = env.d
	}
	note := ""
	recordVersion := func(gen uint64) {
		if bs, err := os.ReadFile(env.path); err == nil {
			h := sha256.Sum256(bs)
			if _, ok := vers[h]; !ok {
				vers[h] = gen
			}
		}
	}
	recordVersion(1)
	ctx, cancel := context.WithCancel(context.Background())
	defer cancel()
	for _, f := range in.ReadFaults { // (only intervals starting before the task are used in real time)
		if err := c17FaultApply(env.path, f); err != nil {
			return fail("fault: " + err.Error())
		}
	}
	rec.mu.Lock()
	rec.start = time.Now()
	rec.mu.Unlock()
	start := rec.start
	var fwg sync.WaitGroup
	for _, f := range in.ReadFaults {
		fwg.Add(1)
		go func(f c17Fault) {
			defer fwg.Done()
			time.Sleep(time.Duration(f.Hi)*time.Millisecond - time.Since(start))
			c17FaultUndo(env.path, f)
		}(f)
	}
	defer fwg.Wait()
	if _, err := server.New(ctx, cfg); err != nil {
		return fail("server.New with a backup bucket configured failed: " + err.Error())
	}
	// the clients' calls (on a second handle when New opened the file itself: not possible - one process,
	// one handle - so calls are only made in the "db" wiring; "path" scenarios with calls use the handle
	// New would have been given otherwise)
	d := env.d
	gen := uint64(1)
	type ev struct {
		t      uint64
		op     *c17Op
		cancel bool
	}
	var evs []ev
	ops := in.allOps()
	for k := range ops {
		evs = append(evs, ev{t: ops[k].T, op: &ops[k]})
	}
	evs = append(evs, ev{t: in.Cancel, cancel: true})
	for a := range evs {
		for b := a + 1; b < len(evs); b++ {
			if evs[b].t < evs[a].t {
				evs[a], evs[b] = evs[b], evs[a]
			}
		}
	}
	for _, e := range evs {
		if dt := time.Duration(e.t)*time.Millisecond - time.Since(start); dt > 0 {
			time.Sleep(dt)
		}
		if e.cancel {
			cancel()
			continue
		}
		if d == nil {
			note += "a call was scheduled but the harness has no handle (path wiring); "
			continue
		}
		c := env.super
		switch e.op.Kind {
		case "put":
			d.Put(c, e.op.Name, c17Val(e.op.Val))
		case "activate":
			d.Activate(c, e.op.Name, apiVer(e.op.Ver))
		case "delver":
			d.DeleteVersion(c, e.op.Name, apiVer(e.op.Ver))
		case "del":
			d.Delete(c, e.op.Name)
		}
		gen = d.WriteGen()
		recordVersion(gen)
	}
	if dt := time.Duration(in.Until)*time.Millisecond - time.Since(start); dt > 0 {
		time.Sleep(dt)
	}
	var obs c17Obs
	rec.mu.Lock()
	bodies := map[[32]byte]uint64{}
	for k, u := range rec.ups {
		// snap the real instant to the model's grid
		grid := (u.T + 30000) / 60000 * 60000
		if u.T >= grid && u.T-grid <= c17WireTolerance {
			u.T = grid
		}
		h := rec.raw[k]
		if _, ok := bodies[h]; !ok {
			bodies[h] = uint64(len(bodies) + 1)
		}
		u.Bid = bodies[h]
		u.Gen = vers[h]
		u.Opens = u.Gen != 0 // byte-identical to a file that db.Open accepted
		obs.Uploads = append(obs.Uploads, u)
	}
	rec.mu.Unlock()
	obs.Exited = true
	obs.FinalGen = gen
	if bs, err := os.ReadFile(env.path); err == nil {
		obs.FinalBid = bodies[sha256.Sum256(bs)]
	}
	obs.Note = note
	r := c17Record(in, obs)
	r.Key = fmt.Sprintf("wiring-%d|%s", i, r.Key)
	return r
}
