package main

// C18: byte round trips through every retrieval path (runtime comparison, byte for byte)
// and the text policy of the built `setec put` command (compared with the model in the kernel).

import (
	"bytes"
	"context"
	"encoding/json"
	"fmt"
	"io"
	"math/rand/v2"
	"net"
	"net/http"
	"net/http/httptest"
	"os"
	"os/exec"
	"path/filepath"
	"sync"
	"syscall"
	"time"
	"unicode/utf8"

	"github.com/tailscale/setec/audit"
	"github.com/tailscale/setec/client/setec"
	"github.com/tailscale/setec/db"
	"github.com/tailscale/setec/types/api"
)

func init() { commands["C18"] = runC18 }

type c18Input struct {
	Kind     string `json:"kind"` // validrow valid trim cli roundtrip
	Alpha    []byte `json:"alpha,omitempty"`
	N        int    `json:"n,omitempty"`
	First    int    `json:"first,omitempty"`
	S        []byte `json:"s,omitempty"`
	SQ       string `json:"s_q,omitempty"`
	EmptyOK  bool   `json:"empty_ok,omitempty"`
	Verbatim bool   `json:"verbatim,omitempty"`
	Trim     bool   `json:"trim,omitempty"`
	Source   string `json:"source,omitempty"` // file | pipe
	Class    string `json:"class,omitempty"`
	Size     int    `json:"size,omitempty"`
}

var c18Alpha = []byte{0x00, 0x20, 0x41, 0x7f, 0x80, 0x8f, 0x90, 0x9f, 0xa0, 0xbf, 0xc0, 0xc1, 0xc2, 0xdf, 0xe0, 0xe1, 0xec, 0xed, 0xee, 0xef, 0xf0, 0xf1, 0xf3, 0xf4, 0xf5, 0xff}

var spaceRunes = []rune{'\t', '\n', '\v', '\f', '\r', ' ', 0x85, 0xa0, 0x1680, 0x2000, 0x2001, 0x2005, 0x200a, 0x2028, 0x2029, 0x202f, 0x205f, 0x3000}
var nonSpaceLookalikes = []rune{0x200b, 0x2060, 0xfeff, 0x180e, 0x1c, 0x1f, 0x00, 0x84, 0x86, 0x9f, 0xa1, 0x1681, 0x167f, 0x1fff, 0x200b, 0x2027, 0x202a, 0x2030, 0x205e, 0x2060, 0x2fff, 0x3001}

func randText(r *rand.Rand) []byte {
	var out []rune
	pick := func() rune {
		switch r.IntN(6) {
		case 0:
			return spaceRunes[r.IntN(len(spaceRunes))]
		case 1:
			return nonSpaceLookalikes[r.IntN(len(nonSpaceLookalikes))]
		case 2:
			return rune(0x80 + r.IntN(0x800))
		default:
			return rune('a' + r.IntN(26))
		}
	}
	for k := r.IntN(4); k > 0; k-- {
		out = append(out, spaceRunes[r.IntN(len(spaceRunes))])
	}
	for k := r.IntN(6); k > 0; k-- {
		out = append(out, pick())
	}
	for k := r.IntN(4); k > 0; k-- {
		out = append(out, spaceRunes[r.IntN(len(spaceRunes))])
	}
	return []byte(string(out))
}

type cliEnv struct {
	bin  string
	srv  *httptest.Server
	mu   sync.Mutex
	got  [][]byte
	nreq int
	work string
}

func newCLIEnv(work string) (*cliEnv, error) {
	bin := filepath.Join(work, "setec-cli")
	if _, err := os.Stat(bin); err != nil {
		return nil, fmt.Errorf("the setec CLI binary was not built: %v", err)
	}
	ce := &cliEnv{bin: bin, work: work}
	mux := http.NewServeMux()
	mux.HandleFunc("/api/put", func(w http.ResponseWriter, r *http.Request) {
		body, _ := io.ReadAll(r.Body)
		var req api.PutRequest
		ce.mu.Lock()
		ce.nreq++
		if json.Unmarshal(body, &req) == nil {
			v := req.Value
			if v == nil {
				v = []byte{}
			}
			ce.got = append(ce.got, v)
		} else {
			ce.got = append(ce.got, []byte("<<undecodable request>>"))
		}
		ce.mu.Unlock()
		w.Header().Set("Content-Type", "application/json")
		w.WriteHeader(200)
		w.Write([]byte("2"))
	})
	mux.HandleFunc("/", func(w http.ResponseWriter, r *http.Request) {
		ce.mu.Lock()
		ce.nreq++
		ce.mu.Unlock()
		http.Error(w, "unexpected", 500)
	})
	ce.srv = httptest.NewServer(mux)
	return ce, nil
}

// run executes `setec put` once; returns (sent?, bytes received, exit ok, requests seen)
func (ce *cliEnv) run(in c18Input) (bool, []byte, bool, int) {
	ce.mu.Lock()
	ce.got, ce.nreq = nil, 0
	ce.mu.Unlock()
	args := []string{"-s", ce.srv.URL, "put"}
	if in.EmptyOK {
		args = append(args, "--empty-ok")
	}
	if in.Verbatim {
		args = append(args, "--verbatim")
	}
	if in.Trim {
		args = append(args, "--trim-space")
	}
	var stdin io.Reader
	switch in.Source {
	case "file":
		p := filepath.Join(ce.work, "cli-input.bin")
		os.WriteFile(p, in.S, 0600)
		args = append(args, "--from-file", p)
	case "fifo":
		// --from-file naming something that is not a regular file (a named pipe, bash's <(cmd)): its size
		// says nothing about how much there is to read
		p := filepath.Join(ce.work, "cli-input.fifo")
		os.Remove(p)
		if err := syscall.Mkfifo(p, 0600); err != nil {
			return false, nil, false, 0
		}
		defer os.Remove(p)
		go func(data []byte) {
			// wait (bounded) for the command to open its end; never block for ever if it does not
			for t0 := time.Now(); time.Since(t0) < 10*time.Second; time.Sleep(2 * time.Millisecond) {
				fd, err := syscall.Open(p, syscall.O_WRONLY|syscall.O_NONBLOCK, 0)
				if err != nil {
					continue
				}
				syscall.SetNonblock(fd, false)
				f := os.NewFile(uintptr(fd), p)
				f.Write(data)
				f.Close()
				return
			}
		}(append([]byte(nil), in.S...))
		args = append(args, "--from-file", p)
	case "devstdin":
		args = append(args, "--from-file", "/dev/stdin")
		stdin = bytes.NewReader(in.S)
	default:
		stdin = bytes.NewReader(in.S)
	}
	args = append(args, "secret/name")
	ctx, cancel := context.WithTimeout(context.Background(), 30*time.Second)
	defer cancel()
	cmd := exec.CommandContext(ctx, ce.bin, args...)
	if stdin != nil {
		cmd.Stdin = stdin
	} else {
		cmd.Stdin = bytes.NewReader(nil)
	}
	cmd.Env = append(os.Environ(), "SETEC_SERVER=")
	err := cmd.Run()
	ce.mu.Lock()
	defer ce.mu.Unlock()
	if len(ce.got) == 1 {
		return true, ce.got[0], err == nil, ce.nreq
	}
	return false, nil, err == nil, ce.nreq
}

// runReadErr runs `setec put --verbatim` with a TCP connection as standard input whose peer sends n bytes
// and then resets the connection, so that the command's read of its input fails.
func (ce *cliEnv) runReadErr(n int) (sent bool, got []byte, exitOK bool, nreq int, setupErr error) {
	ce.mu.Lock()
	ce.got, ce.nreq = nil, 0
	ce.mu.Unlock()
	ln, err := net.Listen("tcp", "127.0.0.1:0")
	if err != nil {
		return false, nil, false, 0, err
	}
	defer ln.Close()
	accepted := make(chan net.Conn, 1)
	go func() {
		c, aerr := ln.Accept()
		if aerr == nil {
			accepted <- c
		} else {
			close(accepted)
		}
	}()
	cc, err := net.Dial("tcp", ln.Addr().String())
	if err != nil {
		return false, nil, false, 0, err
	}
	srvConn, ok := <-accepted
	if !ok {
		cc.Close()
		return false, nil, false, 0, fmt.Errorf("accept failed")
	}
	f, err := cc.(*net.TCPConn).File() // the command reads from this end
	cc.Close()
	if err != nil {
		srvConn.Close()
		return false, nil, false, 0, err
	}
	defer f.Close()
	ctx, cancel := context.WithTimeout(context.Background(), 30*time.Second)
	defer cancel()
	cmd := exec.CommandContext(ctx, ce.bin, "-s", ce.srv.URL, "put", "--verbatim", "secret/name")
	cmd.Stdin = f
	cmd.Env = append(os.Environ(), "SETEC_SERVER=")
	if err := cmd.Start(); err != nil {
		srvConn.Close()
		return false, nil, false, 0, err
	}
	payload := bytes.Repeat([]byte("partial-value-"), n/14+1)[:n]
	srvConn.Write(payload)
	time.Sleep(50 * time.Millisecond) // let the command read what has arrived
	srvConn.(*net.TCPConn).SetLinger(0)
	srvConn.Close() // RST: the next read fails with "connection reset by peer"
	werr := cmd.Wait()
	ce.mu.Lock()
	defer ce.mu.Unlock()
	if len(ce.got) >= 1 {
		return true, ce.got[0], werr == nil, ce.nreq, nil
	}
	return false, nil, werr == nil, ce.nreq, nil
}

func c18Run(ce *cliEnv, work string, in c18Input) Record {
	in.SQ = ""
	if len(in.S) <= 64 {
		in.SQ = fmt.Sprintf("%q", in.S)
	}
	switch in.Kind {
	case "validrow":
		ws := enumUpto(in.Alpha, in.N)
		var hits []uint64
		for i, w := range ws {
			if utf8.Valid(append([]byte{byte(in.First)}, w...)) {
				hits = append(hits, uint64(i))
			}
		}
		return Record{Kind: in.Kind, Input: in, Obs: len(hits), Key: fmt.Sprintf("validrow:%d", in.First), Nontrivial: len(hits) > 0 && len(hits) < len(ws),
			Tags: []string{"utf8-row"}, Coq: fmt.Sprintf("CValidRow %s %d %d %s", coqBytes(in.Alpha), in.N, in.First, coqNList(hits))}
	case "valid":
		v := utf8.Valid(in.S)
		return Record{Kind: in.Kind, Input: in, Obs: v, Key: "valid:" + string(in.S), Nontrivial: len(in.S) > 0,
			Tags: []string{fmt.Sprintf("utf8-%v", v)}, Coq: fmt.Sprintf("CValid %s %s", coqBytes(in.S), coqBool(v))}
	case "trim":
		t := bytes.TrimSpace(in.S)
		return Record{Kind: in.Kind, Input: in, Obs: fmt.Sprintf("%q", t), Key: "trim:" + string(in.S), Nontrivial: len(t) != len(in.S),
			Tags: []string{"trim"}, Coq: fmt.Sprintf("CTrim %s %s", coqBytes(in.S), coqBytes(t))}
	case "cli":
		sent, got, exitOK, nreq := ce.run(in)
		obs := "ORefuse"
		rec := Record{Kind: in.Kind, Input: in, Key: fmt.Sprintf("cli:%v%v%v:%s:%s", in.EmptyOK, in.Verbatim, in.Trim, in.Source, in.S)}
		switch {
		case sent && exitOK && nreq == 1:
			obs = "(OSend " + coqBytes(got) + ")"
			rec.Tags = []string{"cli-sent"}
		case !sent && !exitOK && nreq == 0:
			rec.Tags = []string{"cli-refused"}
		default:
			// e.g. refused but a request arrived, or sent but non-zero exit: neither outcome of the model
			obs = "(OSend [x3c;x3c;x62;x61;x64;x3e;x3e])"
			rec.Tags = []string{"cli-inconsistent"}
		}
		rec.Obs = map[string]any{"sent": sent, "exit_ok": exitOK, "requests": nreq, "got": fmt.Sprintf("%q", trunc(got, 64))}
		rec.Nontrivial = utf8.Valid(in.S) && len(bytes.TrimSpace(in.S)) != len(in.S)
		rec.Coq = fmt.Sprintf("CCli %s %s %s %s %s", coqBool(in.EmptyOK), coqBool(in.Verbatim), coqBool(in.Trim), coqBytes(in.S), obs)
		return rec
	case "roundtrip":
		return roundTrip(work, in)
	case "clireaderr":
		// standard input FAILS after part of the value has arrived (a TCP stream that is reset): nothing must
		// be sent - a prefix of the value is not the value
		sent, got, exitOK, nreq, rerr := ce.runReadErr(in.Size)
		rec := Record{Kind: in.Kind, Input: in, Key: fmt.Sprintf("clireaderr:%d", in.Size), Nontrivial: true, Tags: []string{"cli-stdin-read-error"},
			Obs: map[string]any{"prefix": in.Size, "sent": sent, "exit_ok": exitOK, "requests": nreq, "received": len(got), "setup": fmt.Sprint(rerr)}}
		switch {
		case rerr != nil:
			rec.Nontrivial = false // the failing stream could not be set up here: nothing exercised
			rec.Direct = &DirectVerdict{OK: true, What: "skipped: " + rerr.Error()}
		case sent || nreq != 0 || exitOK:
			rec.Direct = &DirectVerdict{OK: false, What: fmt.Sprintf("`setec put` whose standard input failed after %d bytes: sent=%v (%d bytes) requests=%d exit ok=%v - a partial value was accepted", in.Size, sent, len(got), nreq, exitOK)}
		default:
			rec.Direct = &DirectVerdict{OK: true, What: "refused, nothing sent"}
		}
		return rec
	case "clibig":
		// a large value through the command (too large to ship to the kernel: compared here, byte for byte;
		// the flag policy itself is the model's: --verbatim sends the input as it is, from a file or a pipe)
		in.Verbatim = true
		if in.S == nil {
			in.S = classValue(NewRand(uint64(in.Size), 18), in.Class, in.Size)
		}
		sent, got, exitOK, nreq := ce.run(in)
		n := len(in.S)
		in.S = nil // keep the record small; the input is regenerated from class/size on replay
		rec := Record{Kind: in.Kind, Input: in, Key: fmt.Sprintf("clibig:%s:%s:%d", in.Class, in.Source, n), Nontrivial: n > 1<<16,
			Tags: []string{"cli-large-" + in.Source}, Obs: map[string]any{"bytes": n, "sent": sent, "exit_ok": exitOK, "received": len(got)}}
		want := classValue(NewRand(uint64(n), 18), in.Class, n)
		switch {
		case !sent || !exitOK || nreq != 1:
			rec.Direct = &DirectVerdict{OK: false, What: fmt.Sprintf("`setec put --verbatim` of %d bytes from a %s: sent=%v exit ok=%v requests=%d", n, in.Source, sent, exitOK, nreq)}
		case !bytes.Equal(got, want):
			rec.Direct = &DirectVerdict{OK: false, What: fmt.Sprintf("`setec put --verbatim` of %d bytes from a %s delivered %d bytes that differ from the input (first difference at %d)", n, in.Source, len(got), firstDiff(got, want))}
		default:
			rec.Direct = &DirectVerdict{OK: true, What: "delivered byte for byte"}
		}
		return rec
	}
	fatal("C18: unknown kind %q", in.Kind)
	return Record{}
}

func trunc(b []byte, n int) []byte {
	if len(b) > n {
		return b[:n]
	}
	return b
}

func classValue(r *rand.Rand, class string, size int) []byte {
	b := make([]byte, size)
	switch class {
	case "empty":
		return []byte{}
	case "ascii":
		for i := range b {
			b[i] = byte('a' + r.IntN(26))
		}
	case "space":
		for i := range b {
			b[i] = " \t\n\r\v\f"[r.IntN(6)]
		}
		if size > 2 {
			b[size/2] = 'x'
		}
	case "nul":
		for i := range b {
			b[i] = 0
		}
	case "newlines":
		for i := range b {
			b[i] = "\n\r\nab"[r.IntN(5)]
		}
	case "invalid":
		for i := range b {
			b[i] = byte(0x80 + r.IntN(0x80))
		}
	default: // binary
		for i := range b {
			b[i] = byte(r.IntN(256))
		}
	}
	return b
}

// roundTrip puts one value and reads it back through every retrieval path; the comparison
// is byte for byte, done here (the model side is value-parametric: C18_put_get_identity).
func roundTrip(work string, in c18Input) Record {
	r := NewRand(uint64(in.Size)*7919+uint64(len(in.Class)), 77)
	val := in.S
	if val == nil {
		val = classValue(r, in.Class, in.Size)
	}
	rec := Record{Kind: "roundtrip", Input: c18Input{Kind: "roundtrip", Class: in.Class, Size: in.Size}, Key: fmt.Sprintf("rt:%s:%d", in.Class, in.Size),
		Nontrivial: len(val) > 0, Tags: []string{"rt-" + in.Class}}
	fail := func(format string, a ...any) Record {
		rec.Direct = &DirectVerdict{OK: false, What: fmt.Sprintf("round trip of a %s value of %d bytes: ", in.Class, len(val)) + fmt.Sprintf(format, a...)}
		return rec
	}
	hs, err := newHTTPSession(filepath.Join(work, "rt"))
	if err != nil {
		return fail("cannot start: %v", err)
	}
	defer hs.env.close()
	super := mkCaller(DBCaller{ID: 1, Rules: superRules()})
	hs.whois = whoisSpec{Login: 1, Bare: capSpec{Kind: "rules", Rules: superRules()}, HTTPS: capSpec{Kind: "absent"}}
	cli := setec.Client{Server: "http://setec.invalid", DoHTTP: func(req *http.Request) (*http.Response, error) {
		req.RemoteAddr = "100.64.0.7:4242"
		rw := httptest.NewRecorder()
		hs.mux.ServeHTTP(rw, req)
		return rw.Result(), nil
	}}
	ctx := context.Background()
	// put through the HTTP client (JSON + base64 on the wire), a second version through the DB API
	hs.env.d.Put(super, "x", []byte("first"))
	// a version put through the DB API from a buffer its owner then reuses: copy-in at the boundary
	side := append(append([]byte("side:"), val...), '!')
	sideBuf := append([]byte(nil), side...)
	vSide, err := hs.env.d.Put(super, "x", sideBuf)
	if err != nil {
		return fail("db.Put failed: %v", err)
	}
	scribble(sideBuf)
	v, err := cli.Put(ctx, "x", val)
	if err != nil {
		return fail("Client.Put failed: %v", err)
	}
	if err := cli.Activate(ctx, "x", v); err != nil {
		return fail("Activate failed: %v", err)
	}
	same := func(what string, got []byte) *Record {
		if !bytes.Equal(got, val) {
			rr := fail("%s returned %d bytes that differ from what was put (first difference at %d)", what, len(got), firstDiff(got, val))
			return &rr
		}
		return nil
	}
	sv, err := hs.env.d.Get(super, "x")
	if err != nil {
		return fail("db.Get: %v", err)
	}
	if x := same("db.Get", sv.Value); x != nil {
		return *x
	}
	sv, err = hs.env.d.GetVersion(super, "x", v)
	if err != nil {
		return fail("db.GetVersion: %v", err)
	}
	if x := same("db.GetVersion", sv.Value); x != nil {
		return *x
	}
	sv, err = cli.Get(ctx, "x")
	if err != nil {
		return fail("Client.Get: %v", err)
	}
	if x := same("Client.Get", sv.Value); x != nil {
		return *x
	}
	sv, err = cli.GetVersion(ctx, "x", v)
	if err != nil {
		return fail("Client.GetVersion: %v", err)
	}
	if x := same("Client.GetVersion", sv.Value); x != nil {
		return *x
	}
	// a Store with a file cache
	cachePath := filepath.Join(hs.env.dir, "cache", "store.json")
	fcache, err := setec.NewFileCache(cachePath)
	if err != nil {
		return fail("NewFileCache: %v", err)
	}
	st, err := newStoreReleased(ctx, setec.StoreConfig{Client: cli, Secrets: []string{"x"}, Cache: fcache, PollInterval: -1, Logf: func(string, ...any) {}})
	if err != nil {
		return fail("NewStore: %v", err)
	}
	if x := same("Store.Secret", st.Secret("x").Get()); x != nil {
		st.Close()
		return *x
	}
	st.Close()
	// a second store from the cache alone (service unreachable)
	dead := setec.Client{Server: "http://setec.invalid", DoHTTP: func(req *http.Request) (*http.Response, error) { return nil, fmt.Errorf("unreachable") }}
	st2, err := newStoreReleased(ctx, setec.StoreConfig{Client: dead, Secrets: []string{"x"}, Cache: fcache, PollInterval: -1, Logf: func(string, ...any) {}})
	if err != nil {
		return fail("NewStore from the cache alone: %v", err)
	}
	if x := same("Store from cache", st2.Secret("x").Get()); x != nil {
		st2.Close()
		return *x
	}
	st2.Close()
	// a file-backed client reading that cache (non-empty values only)
	if len(val) > 0 {
		fc, err := setec.NewFileClient(cachePath)
		if err != nil {
			return fail("NewFileClient on the cache file: %v", err)
		}
		sv, err = fc.Get(ctx, "x")
		if err != nil {
			return fail("FileClient.Get: %v", err)
		}
		if x := same("FileClient.Get", sv.Value); x != nil {
			return *x
		}
	}
	// server restart: reopen the database file
	d2, err := db.Open(hs.env.path, hs.env.kek.inner, audit.New(io.Discard))
	if err != nil {
		return fail("reopen: %v", err)
	}
	sv, err = d2.Get(super, "x")
	if err != nil {
		return fail("Get after restart: %v", err)
	}
	if x := same("Get after restart", sv.Value); x != nil {
		return *x
	}
	sv, err = d2.GetVersion(super, "x", v)
	if err != nil {
		return fail("GetVersion after restart: %v", err)
	}
	if x := same("GetVersion after restart", sv.Value); x != nil {
		return *x
	}
	// the EMPTY value put right after the newest version was deleted must get a version of its own that
	// really holds it (nothing to deduplicate against), on the live handle and after restart
	if d3, err3 := db.Open(hs.env.path, hs.env.kek.inner, audit.New(io.Discard)); err3 == nil {
		d3.Put(super, "y", []byte("one"))
		v2, _ := d3.Put(super, "y", []byte("two"))
		d3.DeleteVersion(super, "y", v2)
		ve, perr := d3.Put(super, "y", []byte{})
		if perr != nil {
			return fail("put of the empty value after deleting the newest version: %v", perr)
		}
		d4, _ := db.Open(hs.env.path, hs.env.kek.inner, audit.New(io.Discard))
		for _, h := range []*db.DB{d3, d4} {
			if h == nil {
				continue
			}
			sv, err = h.GetVersion(super, "y", ve)
			if err != nil || len(sv.Value) != 0 {
				return fail("the empty value put after deleting the newest version is not retrievable under the version the put returned (%d): %v", ve, err)
			}
		}
	}
	// the version whose input buffer was reused, and a value handed out and then overwritten by its reader
	for _, h := range []*db.DB{hs.env.d, d2} {
		sv, err = h.GetVersion(super, "x", vSide)
		if err != nil || !bytes.Equal(sv.Value, side) {
			return fail("a version put from a buffer that its owner reused afterwards no longer holds the bytes put (live handle or after restart): %v", err)
		}
		scribble(sv.Value)
		sv, err = h.GetVersion(super, "x", vSide)
		if err != nil || !bytes.Equal(sv.Value, side) {
			return fail("overwriting the bytes returned by GetVersion changed what the database serves: %v", err)
		}
	}
	rec.Direct = &DirectVerdict{OK: true, What: "all paths byte-identical"}
	rec.Obs = map[string]any{"bytes": len(val), "paths": 13}
	return rec
}

func firstDiff(a, b []byte) int {
	for i := 0; i < len(a) && i < len(b); i++ {
		if a[i] != b[i] {
			return i
		}
	}
	if len(a) < len(b) {
		return len(a)
	}
	return len(b)
}

func runC18(o Opts) {
	out := NewOut(o.Out)
	defer out.Close()
	work := o.Work
	ce, err := newCLIEnv(work)
	if err != nil {
		out.Emit(Record{Kind: "cli", Key: "cli-env", Direct: &DirectVerdict{OK: false, What: err.Error()}})
		return
	}
	defer ce.srv.Close()
	if o.Replay != "" {
		for _, in := range readInputs[c18Input](o.Replay) {
			out.Emit(c18Run(ce, work, in))
		}
		return
	}
	for _, in := range readCorpus[c18Input](o.Corpus) {
		rec := c18Run(ce, work, in)
		rec.Corpus = "corpus"
		out.Emit(rec)
	}
	thorough := o.Tier == "thorough"
	// 1. utf8.Valid: exhaustive over the boundary alphabet
	n := 2
	if thorough {
		n = 3
	}
	for _, f := range c18Alpha {
		out.Emit(c18Run(ce, work, c18Input{Kind: "validrow", Alpha: c18Alpha, N: n, First: int(f)}))
	}
	r := NewRand(o.Seed, 18)
	nr := 600
	if thorough {
		nr = 20000
	}
	var self []Record
	for i := 0; i < nr; i++ {
		var s []byte
		if i%2 == 0 {
			s = randText(r)
			if r.IntN(3) == 0 && len(s) > 0 { // damage one byte
				s[r.IntN(len(s))] = byte(r.IntN(256))
			}
		} else {
			s = make([]byte, r.IntN(6))
			for j := range s {
				s[j] = c18Alpha[r.IntN(len(c18Alpha))]
			}
		}
		out.Emit(c18Run(ce, work, c18Input{Kind: "valid", S: s}))
	}
	// 2. bytes.TrimSpace on valid text with every kind of Unicode space
	for i := 0; i < nr; i++ {
		s := randText(r)
		rec := c18Run(ce, work, c18Input{Kind: "trim", S: s})
		rec.ID = out.n
		out.Emit(rec)
		if len(self) < 2 && rec.Nontrivial {
			c := rec
			c.Coq = fmt.Sprintf("CTrim %s %s", coqBytes(s), coqBytes(s)) // pretend nothing was trimmed
			c.SelfTest, c.SelfOf = true, rec.ID
			self = append(self, c)
		}
	}
	// 3. the real command: every flag combination x source x input class
	inputs := [][]byte{{}, []byte("hello"), []byte("hello\n"), []byte(" hello"), []byte(" hello "), []byte("he llo"), []byte(" \n\t "),
		{0xff, 0xfe, ' ', '\n'}, {'a', 0x00, 'b', '\n'}, []byte("\xed\xa0\x80 "), []byte("​x​"), []byte("x　"), {0x80}, []byte("line1\nline2\n\n"),
		// a byte order mark is not white space: text that starts with one is sent byte for byte
		{0xEF, 0xBB, 0xBF}, append([]byte{0xEF, 0xBB, 0xBF}, []byte("hello")...), append([]byte{0xEF, 0xBB, 0xBF}, []byte("hello\n")...), append([]byte{0xEF, 0xBB, 0xBF, ' '}, []byte("x")...)}
	extra := 10
	if thorough {
		extra = 200
	}
	for k := 0; k < extra; k++ {
		inputs = append(inputs, randText(r))
	}
	for _, in := range inputs {
		for f := 0; f < 8; f++ {
			for _, src := range []string{"file", "pipe", "fifo", "devstdin"} {
				if !thorough && src == "file" && f%3 == 1 && len(in) > 8 {
					continue // quick tier: thin out
				}
				if !thorough && (src == "fifo" && f%2 == 1 && len(in) > 6 || src == "devstdin" && f%4 != 1) {
					continue
				}
				rec := c18Run(ce, work, c18Input{Kind: "cli", S: in, EmptyOK: f&1 != 0, Verbatim: f&2 != 0, Trim: f&4 != 0, Source: src})
				rec.ID = out.n
				out.Emit(rec)
				if len(self) < 4 && len(rec.Tags) > 0 && rec.Tags[0] == "cli-refused" {
					c := rec
					c.Coq = fmt.Sprintf("CCli %s %s %s %s (OSend %s)", coqBool(f&1 != 0), coqBool(f&2 != 0), coqBool(f&4 != 0), coqBytes(in), coqBytes(in))
					c.SelfTest, c.SelfOf = true, rec.ID
					self = append(self, c)
				}
			}
		}
	}
	// 4. byte round trips through every retrieval path
	sizes := []int{1, 2, 3, 7, 64, 1000, 65537, 1 << 20}
	if thorough {
		sizes = append(sizes, 4<<20)
	}
	for _, class := range []string{"empty", "ascii", "space", "nul", "newlines", "invalid", "binary"} {
		for _, sz := range sizes {
			if class == "empty" && sz != 1 {
				continue
			}
			if !thorough && sz >= 65537 && class != "binary" && class != "invalid" {
				continue
			}
			out.Emit(c18Run(ce, work, c18Input{Kind: "roundtrip", Class: class, Size: sz}))
		}
	}
	// a failing standard input
	for _, n := range []int{1, 4096, 40000} {
		out.Emit(c18Run(ce, work, c18Input{Kind: "clireaderr", Size: n}))
	}
	// large values through the command itself, from a file and from a pipe
	big := []int{1 << 16, 1<<20 - 1, 1 << 20, 1<<20 + 1, 3<<20 + 7}
	if thorough {
		big = append(big, 16<<20+1)
	}
	for _, sz := range big {
		for _, src := range []string{"file", "pipe"} {
			for _, class := range []string{"binary", "ascii"} {
				out.Emit(c18Run(ce, work, c18Input{Kind: "clibig", Class: class, Size: sz, Source: src}))
			}
		}
	}
	for _, rec := range self {
		out.Emit(rec)
	}
}
