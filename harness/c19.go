package main

// C19: histories of a real setec.Store under testing/synctest virtual time: construction from a
// crafted cache document (stamps incl. 0 and negative ones), handles, reads, lookups, updaters,
// polls through Refresh (some held in mid-flight by the scripted client while other calls are
// made), clock advances, clean restarts (Close flushes) and abrupt ones (the last written document
// is all that survives).  Observed after every step through handle-free channels: request logs
// (expired names are not polled), every document handed to Cache.Write, results of the calls.
// The kernel re-runs Client/Expiry.step on the same history (Corr/Run_C19.v).

import (
	"context"
	"encoding/json"
	"fmt"
	"math/rand/v2"
	"reflect"
	"sort"
	"strings"
	"sync"
	"testing"
	"time"

	"github.com/tailscale/setec/client/setec"
	"github.com/tailscale/setec/types/api"
)

func init() { commands["C19"] = runC19 }

type c19Ans struct {
	Ver uint32 `json:"ver,omitempty"` // 0 = the service fails
	Val int    `json:"val,omitempty"`
}

type c19Op struct {
	Kind string `json:"k"` // secret read lookup updater tick poll restart
	Name string `json:"n,omitempty"`
	Ans  c19Ans `json:"ans,omitempty"`
	// tick
	Ms int64 `json:"ms,omitempty"`
	// poll: what the service holds (names not listed: unchanged); Mid = calls made while the poll's requests are held
	Probe []c10ProbeEnt `json:"probe,omitempty"`
	Mid   []c19Op       `json:"mid,omitempty"`
	// restart
	Clean bool     `json:"clean,omitempty"`
	Names []string `json:"names,omitempty"`
	Allow bool     `json:"allow,omitempty"`
	AgeS  int64    `json:"age_s,omitempty"`
}

type c19Input struct {
	CacheDoc []c10CacheEnt `json:"cache_doc,omitempty"` // what the cache holds before the first construction (valid entries only)
	Ops      []c19Op       `json:"ops"`                 // ops[0] is the first construction (kind restart)
}

// ---- scripted client ----

type c19Client struct {
	mu      sync.Mutex
	get     map[string]c19Ans // answers to Get
	getLog  []string
	probe   map[string]c10ProbeEnt
	plog    []c10PReq
	gate    chan struct{} // non-nil: GetIfChanged waits for it
	entered chan struct{}
}

func (c *c19Client) Get(ctx context.Context, name string) (*api.SecretValue, error) {
	c.mu.Lock()
	c.getLog = append(c.getLog, name)
	a, ok := c.get[name]
	c.mu.Unlock()
	if !ok || a.Ver == 0 {
		return nil, api.ErrNotFound
	}
	return &api.SecretValue{Value: c10Val(a.Val), Version: api.SecretVersion(a.Ver)}, nil
}

func (c *c19Client) GetIfChanged(ctx context.Context, name string, old api.SecretVersion) (*api.SecretValue, error) {
	c.mu.Lock()
	c.plog = append(c.plog, c10PReq{Name: name, Old: uint32(old)})
	p, ok := c.probe[name]
	gate, entered := c.gate, c.entered
	c.mu.Unlock()
	if gate != nil {
		select {
		case entered <- struct{}{}:
		default:
		}
		select {
		case <-gate:
		case <-ctx.Done():
			return nil, ctx.Err()
		}
	}
	if !ok {
		return nil, api.ErrValueNotChanged
	}
	if p.Absent {
		return nil, api.ErrNotFound
	}
	if api.SecretVersion(p.Ver) == old {
		return nil, api.ErrValueNotChanged
	}
	return &api.SecretValue{Value: c10Val(p.Val), Version: api.SecretVersion(p.Ver)}, nil
}

type c19Ticker struct{ ch chan time.Time }

func (t c19Ticker) Chan() <-chan time.Time { return t.ch }
func (c19Ticker) Stop()                    {}
func (c19Ticker) Done()                    {}

// ---- observation ----

type c19Obs struct {
	Kind   string        `json:"k"`
	Name   string        `json:"n,omitempty"`
	At     int64         `json:"at"`
	Got    bool          `json:"got,omitempty"`
	Done   bool          `json:"done,omitempty"`
	Val    uint64        `json:"val,omitempty"`
	Ans    c19Ans        `json:"ans,omitempty"`
	OK     bool          `json:"ok,omitempty"`
	Called bool          `json:"called,omitempty"`
	Gated  bool          `json:"gated,omitempty"`
	PReqs  []c10PReq     `json:"preqs,omitempty"`
	Probe  []c10ProbeEnt `json:"probe,omitempty"`
	Docs   [][]c10DocEnt `json:"docs,omitempty"`
	Clean  bool          `json:"clean,omitempty"`
	Names  []string      `json:"names,omitempty"`
	Allow  bool          `json:"allow,omitempty"`
	AgeS   int64         `json:"age_s,omitempty"`
	Reqs   []string      `json:"reqs,omitempty"`
	Fetch  []c10ProbeEnt `json:"fetch,omitempty"`
}

type c19Run struct {
	epoch   time.Time
	cli     *c19Client
	st      *setec.Store
	cache   *c10Cache
	handles map[string]setec.Secret
	pinned  map[string]bool // names whose handle record the store handed out inside Fields.Apply
	obs     []c19Obs
	fail    string
	nextVal int
}

func (r *c19Run) now() int64 { return int64(time.Since(r.epoch)) }

func (r *c19Run) takeDocs() [][]c10DocEnt {
	_, d := c10CoqDocs(r.cache.writes)
	r.cache.writes = nil
	return d
}

func (r *c19Run) simple(op c19Op) {
	switch op.Kind {
	case "tick":
		time.Sleep(time.Duration(op.Ms) * time.Millisecond)
	case "secret":
		o := c19Obs{Kind: "secret", Name: op.Name, At: r.now()}
		func() {
			defer func() { recover() }() // unknown name with lookups disabled panics: no handle either
			if s := r.st.Secret(op.Name); s != nil {
				r.handles[op.Name] = s
				o.Got = true
			}
		}()
		r.obs = append(r.obs, o)
	case "read":
		o := c19Obs{Kind: "read", Name: op.Name, At: r.now()}
		if _, ok := r.handles[op.Name]; !ok && r.pinned[op.Name] {
			// the store handed the handle record out inside Fields.Apply; Secret(name) returns that same handle
			func() {
				defer func() { recover() }()
				if s := r.st.Secret(op.Name); s != nil {
					r.handles[op.Name] = s
				}
			}()
		}
		if h, ok := r.handles[op.Name]; ok {
			o.Done = true
			func() {
				defer func() {
					if x := recover(); x != nil {
						r.fail = fmt.Sprintf("handle of %q panics: %v", op.Name, x)
					}
				}()
				o.Val = c10Tok(h.Get())
			}()
		}
		r.obs = append(r.obs, o)
	case "apply":
		// ParseFields + Fields.Apply on the live store: a struct with ONE non-Secret ([]byte) field tagged with the
		// name.  For the store this is LookupSecret(name) - the handle record is handed out, an unknown name is
		// fetched first - and a read of the value now.  It must never take a handle away: the handle the harness
		// may already hold on this name keeps protecting the secret and keeps working.
		o := c19Obs{Kind: "apply", Name: op.Name, At: r.now(), Ans: op.Ans}
		r.cli.mu.Lock()
		r.cli.get = map[string]c19Ans{op.Name: op.Ans}
		r.cli.getLog = nil
		r.cli.mu.Unlock()
		styp := reflect.StructOf([]reflect.StructField{{Name: "F", Type: reflect.TypeOf([]byte(nil)), Tag: reflect.StructTag(fmt.Sprintf(`setec:%q`, op.Name))}})
		sv := reflect.New(styp)
		ctx, cancel := context.WithTimeout(context.Background(), time.Minute)
		func() {
			defer func() {
				if x := recover(); x != nil {
					r.fail = fmt.Sprintf("Fields.Apply(%q) panics: %v", op.Name, x)
				}
			}()
			if fs, err := setec.ParseFields(sv.Interface(), ""); err != nil {
				r.fail = "ParseFields: " + err.Error()
			} else if err := fs.Apply(ctx, r.st); err == nil {
				o.OK = true
				o.Val = c10Tok(sv.Elem().Field(0).Bytes())
				r.pinned[op.Name] = true
			}
		}()
		cancel()
		r.cli.mu.Lock()
		o.Called = len(r.cli.getLog) > 0
		r.cli.mu.Unlock()
		o.Docs = r.takeDocs()
		r.obs = append(r.obs, o)
	case "lookup", "updater":
		o := c19Obs{Kind: op.Kind, Name: op.Name, At: r.now(), Ans: op.Ans}
		r.cli.mu.Lock()
		r.cli.get = map[string]c19Ans{op.Name: op.Ans}
		r.cli.getLog = nil
		r.cli.mu.Unlock()
		ctx, cancel := context.WithTimeout(context.Background(), time.Minute)
		if op.Kind == "lookup" {
			s, err := r.st.LookupSecret(ctx, op.Name)
			if err == nil && s != nil {
				o.OK = true
				r.handles[op.Name] = s
			}
		} else {
			u, err := setec.NewUpdater(ctx, r.st, op.Name, func(b []byte) (uint64, error) { return c10Tok(b), nil })
			if err == nil {
				o.OK = true
				o.Val = u.Get()
				// the updater holds a handle the harness cannot call separately; Secret(n) returns the same one
				r.handles[op.Name] = r.st.Secret(op.Name)
			}
		}
		cancel()
		r.cli.mu.Lock()
		o.Called = len(r.cli.getLog) > 0
		r.cli.mu.Unlock()
		o.Docs = r.takeDocs()
		r.obs = append(r.obs, o)
	}
}

func (r *c19Run) poll(op c19Op) {
	r.cli.mu.Lock()
	r.cli.probe = map[string]c10ProbeEnt{}
	for _, p := range op.Probe {
		r.cli.probe[p.Name] = p
	}
	r.cli.plog = nil
	gate := make(chan struct{})
	r.cli.gate, r.cli.entered = gate, make(chan struct{}, 1)
	entered := r.cli.entered
	r.cli.mu.Unlock()
	begin := c19Obs{Kind: "pollbegin", At: r.now()}
	errc := make(chan error, 1)
	ctx, cancel := context.WithCancel(context.Background())
	defer cancel()
	go func() { errc <- r.st.Refresh(ctx) }()
	var err error
	select {
	case <-entered:
		begin.Gated = true
	case err = <-errc:
	}
	bi := len(r.obs)
	r.obs = append(r.obs, begin)
	if begin.Gated {
		for _, m := range op.Mid {
			r.simple(m)
		}
		close(gate)
		err = <-errc
	}
	r.cli.mu.Lock()
	r.obs[bi].PReqs = append([]c10PReq(nil), r.cli.plog...)
	r.cli.gate = nil
	r.cli.mu.Unlock()
	r.obs = append(r.obs, c19Obs{Kind: "pollend", At: r.now(), OK: err == nil, Probe: op.Probe, Docs: r.takeDocs()})
	if !begin.Gated {
		for _, m := range op.Mid {
			r.simple(m)
		}
	}
}

func (r *c19Run) restart(op c19Op, first bool) {
	o := c19Obs{Kind: "restart", Clean: op.Clean && !first, Names: op.Names, Allow: op.Allow, AgeS: op.AgeS}
	var data []byte
	if !first {
		if !op.Clean {
			data = append([]byte(nil), r.cache.data...) // abrupt end: only what was written so far survives
		}
		r.st.Close()
		if op.Clean {
			data = append([]byte(nil), r.cache.data...)
			o.Docs = r.takeDocs()
		}
	} else {
		data = r.cache.data
	}
	r.cache = &c10Cache{data: data}
	r.handles = map[string]setec.Secret{}
	r.pinned = map[string]bool{}
	r.cli.mu.Lock()
	r.cli.get = map[string]c19Ans{}
	for _, n := range op.Names {
		r.nextVal = r.nextVal%c10MaxTok + 1
		a := c19Ans{Ver: 1 + uint32(r.nextVal%7), Val: r.nextVal}
		r.cli.get[n] = a
		o.Fetch = append(o.Fetch, c10ProbeEnt{Name: n, Ver: a.Ver, Val: a.Val})
	}
	r.cli.getLog = nil
	r.cli.mu.Unlock()
	o.At = r.now()
	ctx, cancel := context.WithTimeout(context.Background(), time.Minute)
	st, err := newStoreReleased(ctx, setec.StoreConfig{
		Client: r.cli, Secrets: append([]string(nil), op.Names...), AllowLookup: op.Allow, Cache: r.cache,
		ExpiryAge: time.Duration(op.AgeS) * time.Second, PollTicker: c19Ticker{ch: make(chan time.Time)},
		Logf: func(string, ...any) {},
	})
	cancel()
	if err != nil {
		r.fail = "NewStore failed: " + err.Error()
		return
	}
	r.st = st
	r.cli.mu.Lock()
	o.Reqs = append([]string(nil), r.cli.getLog...)
	r.cli.mu.Unlock()
	sort.Strings(o.Reqs)
	o.Docs = append(o.Docs, r.takeDocs()...)
	r.obs = append(r.obs, o)
}

func c19Scenario(t *testing.T, in c19Input) (obs []c19Obs, fail string) {
	r := &c19Run{epoch: time.Now(), cli: &c19Client{}, handles: map[string]setec.Secret{}, pinned: map[string]bool{}}
	r.cache = &c10Cache{}
	if len(in.CacheDoc) > 0 {
		r.cache.data = c10CacheJSON(in.CacheDoc)
	}
	defer func() {
		if r.st != nil {
			r.st.Close()
		}
	}()
	for i, op := range in.Ops {
		if i == 0 {
			if op.Kind != "restart" {
				return nil, "history does not begin with a construction"
			}
			r.restart(op, true)
		} else {
			switch op.Kind {
			case "restart":
				r.restart(op, false)
			case "poll":
				r.poll(op)
			default:
				r.simple(op)
			}
		}
		if r.fail != "" {
			return r.obs, r.fail
		}
	}
	// the end: Close flushes
	r.st.Close()
	r.st = nil
	d := r.takeDocs()
	end := c19Obs{Kind: "end", At: r.now(), Docs: d}
	r.obs = append(r.obs, end)
	return r.obs, ""
}

// ---- Gallina ----

func c19CoqAns(a c19Ans) string {
	if a.Ver == 0 {
		return "None"
	}
	return fmt.Sprintf("(Some (%d,%d))", a.Ver, a.Val)
}

func c19CoqDocs(ds [][]c10DocEnt) string {
	p := make([]string, len(ds))
	for i, d := range ds {
		p[i] = c10CoqDoc(d)
	}
	return coqList(p)
}

func c19CoqProbe(ps []c10ProbeEnt) string {
	pp := make([]string, len(ps))
	for i, p := range ps {
		if p.Absent {
			pp[i] = fmt.Sprintf("(%s,None)", coqBytes([]byte(p.Name)))
		} else {
			pp[i] = fmt.Sprintf("(%s,Some (%d,%d))", coqBytes([]byte(p.Name)), p.Ver, p.Val)
		}
	}
	return coqList(pp)
}

func c19Coq(in c19Input, obs []c19Obs) string {
	var sb strings.Builder
	fmt.Fprintf(&sb, "Hist %s ", coqZ(c10Epoch))
	cd := make([]string, len(in.CacheDoc))
	for i, e := range in.CacheDoc {
		cd[i] = fmt.Sprintf("(%s,Some (%d,%d,%s))", coqBytes([]byte(e.Name)), e.Ver, e.Val, coqZ(e.Last))
	}
	sb.WriteString(coqList(cd) + " ")
	parts := make([]string, 0, len(obs))
	for _, o := range obs {
		nm := coqBytes([]byte(o.Name))
		switch o.Kind {
		case "secret":
			parts = append(parts, fmt.Sprintf("OSecret %s %s", nm, coqBool(o.Got)))
		case "read":
			parts = append(parts, fmt.Sprintf("ORead %s %d %s %d", nm, o.At, coqBool(o.Done), o.Val))
		case "lookup":
			parts = append(parts, fmt.Sprintf("OLookup %s %d %s %s %s %s", nm, o.At, c19CoqAns(o.Ans), coqBool(o.OK), coqBool(o.Called), c19CoqDocs(o.Docs)))
		case "apply":
			parts = append(parts, fmt.Sprintf("OApply %s %d %s %s %s %d %s", nm, o.At, c19CoqAns(o.Ans), coqBool(o.OK), coqBool(o.Called), o.Val, c19CoqDocs(o.Docs)))
		case "updater":
			parts = append(parts, fmt.Sprintf("OUpdater %s %d %s %s %s %d %s", nm, o.At, c19CoqAns(o.Ans), coqBool(o.OK), coqBool(o.Called), o.Val, c19CoqDocs(o.Docs)))
		case "pollbegin":
			pr := make([]string, len(o.PReqs))
			for i, p := range o.PReqs {
				pr[i] = fmt.Sprintf("(%s,%d)", coqBytes([]byte(p.Name)), p.Old)
			}
			parts = append(parts, fmt.Sprintf("OPollBegin %d %s %s", o.At, coqBool(o.Gated), coqList(pr)))
		case "pollend":
			parts = append(parts, fmt.Sprintf("OPollEnd %s %s %s", c19CoqProbe(o.Probe), coqBool(o.OK), c19CoqDocs(o.Docs)))
		case "restart":
			ft := make([]string, len(o.Fetch))
			for i, f := range o.Fetch {
				ft[i] = fmt.Sprintf("(%s,(%d,%d))", coqBytes([]byte(f.Name)), f.Ver, f.Val)
			}
			parts = append(parts, fmt.Sprintf("ORestart %s %s %s %s %d %s %s %s", coqBool(o.Clean), c10CoqNames(o.Names), coqBool(o.Allow),
				coqZ(o.AgeS*1000000000), o.At, coqList(ft), c10CoqNames(o.Reqs), c19CoqDocs(o.Docs)))
		case "end":
			d := []c10DocEnt{{Name: "<no final flush>", Null: true}}
			if len(o.Docs) == 1 {
				d = o.Docs[0]
			}
			parts = append(parts, "OEnd "+c10CoqDoc(d))
		}
	}
	sb.WriteString(coqList(parts))
	return sb.String()
}

// ---- generator ----

var c19Pool = []string{"d1", "d2", "u1", "u2", "u3", "x"}

func c19GenSimple(r *rand.Rand, allowTick bool) c19Op {
	n := c19Pool[r.IntN(len(c19Pool))]
	if r.IntN(8) == 0 {
		return c19Op{Kind: "apply", Name: n, Ans: c19Ans{Ver: 1 + uint32(r.IntN(6)), Val: 1 + r.IntN(c10MaxTok)}}
	}
	switch k := r.IntN(10); {
	case k < 3:
		return c19Op{Kind: "secret", Name: n}
	case k < 6:
		return c19Op{Kind: "read", Name: n}
	case k < 8:
		a := c19Ans{Ver: 1 + uint32(r.IntN(6)), Val: 1 + r.IntN(c10MaxTok)}
		if r.IntN(5) == 0 {
			a = c19Ans{}
		}
		return c19Op{Kind: "lookup", Name: n, Ans: a}
	case k < 9 || !allowTick:
		return c19Op{Kind: "updater", Name: n, Ans: c19Ans{Ver: 1 + uint32(r.IntN(6)), Val: 1 + r.IntN(c10MaxTok)}}
	}
	return c19GenTick(r)
}

func c19GenTick(r *rand.Rand) c19Op {
	return c19Op{Kind: "tick", Ms: c10Pick(r, []int64{1000, 1000, 29000, 30000, 31000, 500, 2000, 3600000, 999000, 1001000})}
}

func c19GenRestart(r *rand.Rand, first bool) c19Op {
	op := c19Op{Kind: "restart", Clean: r.IntN(2) == 0, Allow: r.IntN(6) != 0}
	for _, n := range []string{"d1", "d2", "u1"} {
		if r.IntN(2) == 0 {
			op.Names = append(op.Names, n)
		}
	}
	if len(op.Names) == 0 && (!op.Allow || r.IntN(2) == 0) {
		op.Names = []string{"d1"}
	}
	op.AgeS = c10Pick(r, []int64{30, 30, 30, 1, 1, 0, 1000000, 2000000000, -5})
	return op
}

func c19Gen(r *rand.Rand) c19Input {
	var in c19Input
	E := int64(c10Epoch)
	for _, n := range c19Pool {
		if r.IntN(3) != 0 {
			in.CacheDoc = append(in.CacheDoc, c10CacheEnt{Name: n, Kind: "ok", Ver: 1 + uint32(r.IntN(5)), Val: 1 + r.IntN(c10MaxTok),
				Last: c10Pick(r, []int64{0, 0, -7, E - 100000, E - 31, E - 30, E - 29, E - 1, E, E + 1000, E + 30})})
		}
	}
	if r.IntN(8) == 0 {
		in.CacheDoc = nil
	}
	in.Ops = append(in.Ops, c19GenRestart(r, true))
	n := 5 + r.IntN(18)
	for i := 0; i < n; i++ {
		switch k := r.IntN(20); {
		case k < 5:
			in.Ops = append(in.Ops, c19GenTick(r))
		case k < 11:
			op := c19Op{Kind: "poll"}
			for _, nm := range c19Pool {
				switch r.IntN(14) {
				case 0:
					op.Probe = append(op.Probe, c10ProbeEnt{Name: nm, Ver: 1 + uint32(r.IntN(6)), Val: 1 + r.IntN(c10MaxTok)})
				case 1:
					if r.IntN(2) == 0 {
						op.Probe = append(op.Probe, c10ProbeEnt{Name: nm, Absent: true})
					}
				}
			}
			if r.IntN(3) == 0 {
				for j := 1 + r.IntN(3); j > 0; j-- {
					op.Mid = append(op.Mid, c19GenSimple(r, true))
				}
			}
			in.Ops = append(in.Ops, op)
		case k < 13:
			in.Ops = append(in.Ops, c19GenRestart(r, false))
		default:
			in.Ops = append(in.Ops, c19GenSimple(r, false))
		}
	}
	return in
}

func c19Tags(in c19Input, obs []c19Obs) ([]string, bool) {
	t := map[string]bool{}
	dropped := false
	for _, op := range in.Ops {
		if op.Kind == "restart" {
			t[fmt.Sprintf("age=%d", op.AgeS)] = true
		}
		if op.Kind == "poll" && len(op.Mid) > 0 {
			t["poll-with-mid-calls"] = true
		}
	}
	for _, e := range in.CacheDoc {
		if e.Last == 0 {
			t["stamp0"] = true
		}
	}
	var prev map[string]bool
	held := map[string]bool{}
	for _, o := range obs {
		for _, d := range o.Docs {
			cur := map[string]bool{}
			for _, e := range d {
				cur[e.Name] = true
			}
			for k := range prev {
				if !cur[k] {
					dropped = true
				}
			}
			prev = cur
		}
		if o.Kind == "secret" && o.Got || (o.Kind == "lookup" || o.Kind == "updater") && o.OK {
			held[o.Name] = true
		}
		if o.Kind == "restart" {
			held = map[string]bool{}
		}
		if o.Kind == "apply" && o.OK {
			t["apply"] = true
			if held[o.Name] {
				t["apply-on-a-held-name"] = true
			}
		}
		if o.Kind == "pollbegin" && o.Gated {
			t["gated-poll"] = true
		}
		if o.Kind == "pollend" && !o.OK {
			t["failed-poll"] = true
		}
		if o.Kind == "restart" && len(obs) > 0 && o.At > 0 {
			if o.Clean {
				t["clean-restart"] = true
			} else {
				t["abrupt-restart"] = true
			}
		}
	}
	if dropped {
		t["dropped"] = true
	}
	return sortedKeys(t), dropped
}

func runC19(o Opts) {
	n := 1500
	if o.Tier == "thorough" {
		n = 30000
	}
	if o.N > 0 {
		n = o.N
	}
	var inputs []c19Input
	var corpusN int
	if o.Replay != "" {
		inputs = readInputs[c19Input](o.Replay)
	} else {
		inputs = readCorpus[c19Input](o.Corpus)
		corpusN = len(inputs)
		r := NewRand(o.Seed, 19)
		for i := 0; i < n; i++ {
			inputs = append(inputs, c19Gen(r))
		}
	}
	inTest(func(t *testing.T) {
		out := NewOut(o.Out)
		selftests := 0
		for i, in := range inputs {
			if len(in.Ops) == 0 || in.Ops[0].Kind != "restart" {
				continue // (a shrunk history that lost its construction)
			}
			var obs []c19Obs
			var fail string
			bubble(t, func(t *testing.T) { obs, fail = c19Scenario(t, in) })
			key, _ := json.Marshal(in)
			tags, dropped := c19Tags(in, obs)
			rec := Record{Kind: "history", Input: in, Obs: obs, Key: string(key), Tags: tags, Nontrivial: dropped}
			if fail != "" {
				rec.Direct = &DirectVerdict{OK: false, What: fail}
			} else {
				rec.Coq = c19Coq(in, obs)
			}
			if i < corpusN {
				rec.Corpus = fmt.Sprintf("corpus-%d", i)
			}
			out.Emit(rec)
			id := out.n - 1
			if fail == "" && o.Replay == "" && selftests < 12 && i%9 == 4 {
				alt := append([]c19Obs(nil), obs...)
				what := ""
				last := len(alt) - 1
				if selftests%2 == 0 && len(alt[last].Docs) == 1 && len(alt[last].Docs[0]) > 0 {
					d := append([]c10DocEnt(nil), alt[last].Docs[0]...)
					d[0].Last++
					alt[last].Docs = [][]c10DocEnt{d}
					what = "stamp in the final document"
				} else {
					for j := range alt {
						if alt[j].Kind == "pollbegin" {
							alt[j].PReqs = append(append([]c10PReq(nil), alt[j].PReqs...), c10PReq{Name: "ghost", Old: 1})
							what = "extra poll request"
							break
						}
					}
				}
				if what != "" {
					selftests++
					out.Emit(Record{Kind: "selftest:" + what, Input: in, Obs: alt, Key: string(key), SelfTest: true, SelfOf: id, Coq: c19Coq(in, alt)})
				}
			}
		}
		out.Close()
	})
}
