package main

// C20: struct-tag plumbing (client/setec/fields.go).  Shapes are built at run time with
// reflect.StructOf, filled through newStoreReleased(StoreConfig.Structs) or through
// setec.ParseFields + Fields.Apply on an existing store, against a scripted StoreClient that
// logs every requested name.  The kernel re-runs the model (coq/Client/Fields.v) on the same
// shape and compares the projected observables (coq/Corr/Run_C20.v).

import (
	"bytes"
	"context"
	"encoding/json"
	"errors"
	"fmt"
	"math/rand/v2"
	"path"
	"reflect"
	"slices"
	"sort"
	"strconv"
	"strings"
	"sync"

	"github.com/tailscale/setec/client/setec"
	"github.com/tailscale/setec/types/api"
)

func init() { commands["C20"] = c20Main }

// ---- fixed named field types (reflect.StructOf cannot attach methods)

// C20Rec records what its UnmarshalBinary received; input starting with '!' is refused
// (after recording).
type C20Rec struct {
	Got []byte
	N   int
}

func (r *C20Rec) UnmarshalBinary(b []byte) error {
	r.Got = append([]byte{}, b...)
	r.N++
	if len(b) > 0 && b[0] == '!' {
		return errors.New("c20: refused by the unmarshaler")
	}
	return nil
}

type C20Pt struct {
	A int    `json:"a"`
	B string `json:"b"`
}

const c20Sentinel = "\x00pre"

var c20SentinelSecret = setec.StaticSecret(c20Sentinel)

const (
	c20TidBytes  = 0
	c20TidString = 1
	c20TidHandle = 2
	c20TidUnmVal = 3
	c20TidUnmNil = 4
	c20TidUnmSet = 5
	c20TidMax    = 11
)

func c20Type(tid int) reflect.Type {
	switch tid {
	case 0:
		return reflect.TypeOf([]byte(nil))
	case 1:
		return reflect.TypeOf("")
	case 2:
		return reflect.TypeOf(setec.Secret(nil))
	case 3:
		return reflect.TypeOf(C20Rec{})
	case 4, 5:
		return reflect.TypeOf((*C20Rec)(nil))
	case 6:
		return reflect.TypeOf(int(0))
	case 7:
		return reflect.TypeOf(false)
	case 8:
		return reflect.TypeOf(C20Pt{})
	case 9:
		return reflect.TypeOf(map[string]int(nil))
	case 10:
		return reflect.TypeOf(float64(0))
	case 11:
		return reflect.TypeOf((*int)(nil))
	}
	fatal("C20: unknown type id %d", tid)
	return nil
}

// c20Pre returns a fresh copy of the content every field of this type holds before the run.
func c20Pre(tid int) reflect.Value {
	switch tid {
	case 0:
		return reflect.ValueOf([]byte(c20Sentinel))
	case 1:
		return reflect.ValueOf(c20Sentinel)
	case 2:
		return reflect.ValueOf(c20SentinelSecret)
	case 3:
		return reflect.ValueOf(C20Rec{})
	case 4:
		return reflect.ValueOf((*C20Rec)(nil))
	case 5:
		return reflect.ValueOf(&C20Rec{})
	case 6:
		return reflect.ValueOf(int(777))
	case 7:
		return reflect.ValueOf(true)
	case 8:
		return reflect.ValueOf(C20Pt{A: 7, B: "pre"})
	case 9:
		return reflect.ValueOf(map[string]int{"pre": 1})
	case 10:
		return reflect.ValueOf(float64(7.5))
	case 11:
		x := 777
		return reflect.ValueOf(&x)
	}
	fatal("C20: unknown type id %d", tid)
	return reflect.Value{}
}

func c20Same(tid int, a, b reflect.Value) bool {
	if tid == c20TidHandle {
		sa, sb := a.Interface().(setec.Secret), b.Interface().(setec.Secret)
		if sa == nil || sb == nil {
			return sa == nil && sb == nil
		}
		return bytes.Equal(sa.Get(), sb.Get())
	}
	return reflect.DeepEqual(a.Interface(), b.Interface())
}

// c20Snap: a copy of a field's content that later writes to the field cannot reach
func c20Snap(tid int, v reflect.Value) reflect.Value {
	switch x := v.Interface().(type) {
	case []byte:
		return reflect.ValueOf(bytes.Clone(x))
	case C20Rec:
		return reflect.ValueOf(C20Rec{Got: bytes.Clone(x.Got), N: x.N})
	case *C20Rec:
		if x == nil {
			return reflect.ValueOf((*C20Rec)(nil))
		}
		return reflect.ValueOf(&C20Rec{Got: bytes.Clone(x.Got), N: x.N})
	case map[string]int:
		m := map[string]int{}
		for k, e := range x {
			m[k] = e
		}
		return reflect.ValueOf(m)
	case *int:
		if x == nil {
			return reflect.ValueOf((*int)(nil))
		}
		y := *x
		return reflect.ValueOf(&y)
	}
	return reflect.ValueOf(v.Interface())
}

// ---- inputs

type c20Field struct {
	Name  string     `json:"name"`            // Go field name: a capital letter and digits
	Tid   int        `json:"tid"`             // type id (ignored for an embedded struct)
	Tag   *string    `json:"tag"`             // value of the setec tag; null = no tag
	Emb   bool       `json:"emb,omitempty"`   // struct embedded by value
	Inner []c20Field `json:"inner,omitempty"` // its fields
}

type c20Secret struct {
	Name  string `json:"name"`
	Value []byte `json:"value"`
	Text  string `json:"text,omitempty"` // for readers only
}

// one entry of StoreConfig.Structs / one ParseFields call
type c20StructIn struct {
	Fields []c20Field `json:"fields"`
	Prefix string     `json:"prefix"`
}

type c20Input struct {
	Kind     string      `json:"kind"`               // run | join | joinrow | domain | multi (several struct values: mode snew | sapply)
	Structs  []c20StructIn `json:"structs,omitempty"` // multi: the values, in the order they are configured / parsed
	Order    []int       `json:"order,omitempty"`    // multi, sapply: the order in which the parsed values are applied
	Fail     []int       `json:"fail,omitempty"`     // multi: the entries whose Apply is scripted to report an error (a bad value under one of THEIR names); for the statistics only
	N        int         `json:"n,omitempty"`        // joinrow: the other argument runs over all strings over c20Alpha of length <= n
	Swap     bool        `json:"swap,omitempty"`     // joinrow: A is the name, the prefixes are enumerated
	Head     string      `json:"head,omitempty"`     // joinrow: fixed head of the enumerated argument (cuts long rows into pieces)
	Mode     string      `json:"mode,omitempty"`     // new | apply | decl (ParseFields; NewStore{Secrets: f.Secrets()}; f.Apply) | reapply (one Fields applied to two stores / twice to one)
	Same      bool        `json:"same,omitempty"`      // reapply: the second Apply goes to the SAME store after a Refresh installed the versions of svc2
	Allow2    bool        `json:"allow2,omitempty"`    // reapply: AllowLookup of the second store
	Declared2 []string    `json:"declared2,omitempty"` // reapply: StoreConfig.Secrets of the second store
	Svc2      []c20Secret `json:"svc2,omitempty"`      // reapply: what the second service holds / the new versions for the same store
	Scribble string      `json:"scribble,omitempty"` // decl: what the harness does to the slice Secrets() returned, after NewStore and before Apply: sort | reverse | overwrite | clear | rotate | "" (nothing)
	Copy     bool        `json:"copy,omitempty"`     // decl: NewStore is given a copy of the slice (only the scribbling touches the original)
	Allow    bool        `json:"allow,omitempty"`    // AllowLookup
	Arg      string      `json:"arg,omitempty"`      // ptr | struct | nonstruct | nil (untyped nil) | nilptr (nil pointer to the struct)
	Prefix   string      `json:"prefix"`             //
	Declared []string    `json:"declared,omitempty"` // StoreConfig.Secrets
	Fields   []c20Field  `json:"fields"`
	Svc      []c20Secret `json:"svc,omitempty"` // what the service holds (version 1)
	A        string      `json:"a,omitempty"`   // join
	B        string      `json:"b,omitempty"`
	What     string      `json:"what,omitempty"` // domain: nil-embedded-ptr | set-embedded-ptr (nil-any, nil-structptr*: run cases since the F9 repair)
}

// ---- scripted service

type c20Client struct {
	mu      sync.Mutex
	vals    map[string]*api.SecretValue
	log     []string
	missing bool
	onMiss  func()
}

func (c *c20Client) Get(ctx context.Context, name string) (*api.SecretValue, error) {
	c.mu.Lock()
	defer c.mu.Unlock()
	c.log = append(c.log, name)
	sv, ok := c.vals[name]
	if !ok {
		c.missing = true
		if c.onMiss != nil {
			c.onMiss()
		}
		return nil, api.ErrNotFound
	}
	return &api.SecretValue{Value: append([]byte{}, sv.Value...), Version: sv.Version}, nil
}

func (c *c20Client) GetIfChanged(ctx context.Context, name string, old api.SecretVersion) (*api.SecretValue, error) {
	c.mu.Lock()
	defer c.mu.Unlock()
	sv, ok := c.vals[name]
	if !ok {
		return nil, api.ErrNotFound
	}
	if sv.Version == old {
		return nil, api.ErrValueNotChanged
	}
	return &api.SecretValue{Value: append([]byte{}, sv.Value...), Version: sv.Version}, nil
}

// ---- building the struct

type c20Leaf struct {
	I, J int
	Path []int
	F    c20Field
}

func c20Tag(f c20Field) reflect.StructTag {
	if f.Tag == nil {
		return ""
	}
	return reflect.StructTag("setec:" + strconv.Quote(*f.Tag))
}

func c20Build(fs []c20Field) (t reflect.Type, leaves []c20Leaf) {
	var sfs []reflect.StructField
	for i, f := range fs {
		if f.Emb {
			var in []reflect.StructField
			for j, g := range f.Inner {
				in = append(in, reflect.StructField{Name: g.Name, Type: c20Type(g.Tid), Tag: c20Tag(g)})
				leaves = append(leaves, c20Leaf{I: i, J: j + 1, Path: []int{i, j}, F: g})
			}
			sfs = append(sfs, reflect.StructField{Name: f.Name, Type: reflect.StructOf(in), Anonymous: true})
		} else {
			sfs = append(sfs, reflect.StructField{Name: f.Name, Type: c20Type(f.Tid), Tag: c20Tag(f)})
			leaves = append(leaves, c20Leaf{I: i, J: 0, Path: []int{i}, F: f})
		}
	}
	return reflect.StructOf(sfs), leaves
}

func c20NameTok(name string) uint64 {
	n, _ := strconv.Atoi(name[1:])
	return uint64(name[0]-'A')*100 + uint64(n)
}

func c20CoqField(f c20Field) string {
	tag := "None"
	if f.Tag != nil {
		tag = "(Some " + coqBytes([]byte(*f.Tag)) + ")"
	}
	return fmt.Sprintf("Fd %d %s %d", c20NameTok(f.Name), tag, f.Tid)
}

func c20CoqShape(fs []c20Field) string {
	var items []string
	for _, f := range fs {
		if f.Emb {
			var in []string
			for _, g := range f.Inner {
				in = append(in, c20CoqField(g))
			}
			items = append(items, fmt.Sprintf("IE %d %s", c20NameTok(f.Name), coqList(in)))
		} else {
			items = append(items, "IF ("+c20CoqField(f)+")")
		}
	}
	return coqList(items)
}

func c20CoqNames(ns []string) string {
	parts := make([]string, len(ns))
	for i, n := range ns {
		parts[i] = coqBytes([]byte(n))
	}
	return coqList(parts)
}

// ---- observation

type c20Loc struct {
	I    int    `json:"i"`
	J    int    `json:"j"`
	Unch bool   `json:"unchanged"`
	Vt   uint64 `json:"vt"`
	Dt   uint64 `json:"dt"`
	V2   uint64 `json:"v2"`
	Show string `json:"show,omitempty"`
}

type c20Obs struct {
	ErrClass uint64   `json:"errclass"` // 0 nil, 1 rejected before any request, 2 error after requests/Apply, 3 construction could not fetch a name
	NErrs    uint64   `json:"nerrs"`
	Reqs     []string `json:"requests"`
	Locs     []c20Loc `json:"fields"`
	Intact   bool     `json:"store_intact_after_overwrite"`
	First    *c20Obs  `json:"after_first_apply,omitempty"` // reapply: what was observed after the first Apply
	Sec1     []string `json:"secrets_first,omitempty"`  // decl: what the first Secrets() call returned (copied at once)
	Sec2     []string `json:"secrets_second,omitempty"` // decl: what Secrets() returns after NewStore, the scribbling and Apply
	Err      string   `json:"error_text,omitempty"` // for readers only, never compared
	Panic    string   `json:"panic,omitempty"`
}

func (o c20Obs) coq() string {
	locs := make([]string, len(o.Locs))
	for i, l := range o.Locs {
		locs[i] = fmt.Sprintf("OL %d %d %s %d %d %d", l.I, l.J, coqBool(l.Unch), l.Vt, l.Dt, l.V2)
	}
	return fmt.Sprintf("(Ob %d %d %s %s %s)", o.ErrClass, o.NErrs, c20CoqNames(o.Reqs), coqList(locs), coqBool(o.Intact))
}

// c20CountErrs: the number of errors joined in err (the first multi-error found along the
// Unwrap chain), 1 for a plain non-nil error.
func c20CountErrs(err error) uint64 {
	for e := err; e != nil; {
		if m, ok := e.(interface{ Unwrap() []error }); ok {
			return uint64(len(m.Unwrap()))
		}
		e = errors.Unwrap(e)
	}
	if err == nil {
		return 0
	}
	return 1
}

const (
	c20Corrupt = 999999
)

type c20Run struct {
	in     c20Input
	vtok   map[string]uint64
	v2tok  map[string]uint64
	tables map[int][]reflect.Value // per type id: distinct decode results, [0] = pre content
}

func (r *c20Run) tokOf(b []byte) uint64 {
	if t, ok := r.vtok[string(b)]; ok {
		return t
	}
	return c20Corrupt
}

func (r *c20Run) dtokOf(tid int, v reflect.Value) uint64 {
	tab := r.tables[tid]
	if tab == nil {
		tab = []reflect.Value{c20Pre(tid)}
		r.tables[tid] = tab
	}
	for i, e := range tab {
		if c20Same(tid, v, e) {
			return uint64(i)
		}
	}
	return c20Corrupt
}

// jsonTable: what encoding/json makes of every service value for a field of this type
// (decoding into a fresh copy of the field's previous content).
func (r *c20Run) jsonTable(tid int) []string {
	var out []string
	done := map[uint64]bool{}
	for _, s := range append(append([]c20Secret{}, r.in.Svc...), r.in.Svc2...) {
		vt := r.vtok[string(s.Value)]
		if done[vt] {
			continue
		}
		done[vt] = true
		ref := reflect.New(c20Type(tid))
		ref.Elem().Set(c20Pre(tid))
		err := json.Unmarshal(s.Value, ref.Interface())
		res := ref.Elem()
		dt := r.dtokOf(tid, res)
		if dt == c20Corrupt {
			r.tables[tid] = append(r.tables[tid], res)
			dt = uint64(len(r.tables[tid]) - 1)
		}
		out = append(out, fmt.Sprintf("(%d,%d,(%d,%s))", tid, vt, dt, coqBool(err == nil)))
	}
	return out
}

func c20SafeSecret(st *setec.Store, name string) (s setec.Secret) {
	defer func() {
		if recover() != nil {
			s = nil
		}
	}()
	return st.Secret(name)
}

type pokeT struct{ b []byte }

// ---- several struct values in one process: StoreConfig.Structs with two or three entries, or ParseFields on
// several values followed by the Applies in some order.  Entries with the same shape are values of ONE
// struct type (reflect.StructOf returns the identical reflect.Type for identical field lists), so anything the
// code keyed by reflect.Type would be shared between them.

type c20MultiObs struct {
	ErrClass uint64     `json:"errclass"` // snew: NewStore's outcome (0 nil, 1 rejected before any request, 2 error after requests, 3 a name could not be fetched)
	NErrs    uint64     `json:"nerrs"`
	Per      [][2]uint64 `json:"applies,omitempty"` // sapply: (class, joined errors) of every Apply, in the order made
	Reqs     []string   `json:"requests"`
	Locs     [][]c20Loc `json:"values"` // the leaf fields of every value
	Intact   bool       `json:"store_intact_after_overwrite"`
	SameType bool       `json:"values_share_one_type"`
	Err      string     `json:"error_text,omitempty"`
	Panic    string     `json:"panic,omitempty"`
}

func (o c20MultiObs) coq() string {
	per := make([]string, len(o.Per))
	for i, p := range o.Per {
		per[i] = fmt.Sprintf("(%d, %d)", p[0], p[1])
	}
	vals := make([]string, len(o.Locs))
	for k, ls := range o.Locs {
		locs := make([]string, len(ls))
		for i, l := range ls {
			locs[i] = fmt.Sprintf("OL %d %d %s %d %d %d", l.I, l.J, coqBool(l.Unch), l.Vt, l.Dt, l.V2)
		}
		vals[k] = coqList(locs)
	}
	return fmt.Sprintf("(MOb %d %d %s %s %s %s)", o.ErrClass, o.NErrs, coqList(per), c20CoqNames(o.Reqs), coqList(vals), coqBool(o.Intact))
}

type c20MultiFull struct {
	Obs  c20MultiObs `json:"observed"`
	Head string      `json:"-"`
}

func c20ExecMulti(in c20Input) (rec Record) {
	r := &c20Run{in: in, vtok: map[string]uint64{}, v2tok: map[string]uint64{}, tables: map[int][]reflect.Value{}}
	for _, s := range in.Svc {
		if _, ok := r.vtok[string(s.Value)]; !ok {
			r.vtok[string(s.Value)] = uint64(len(r.vtok) + 1)
		}
	}
	type val struct {
		typ    reflect.Type
		ptr    reflect.Value
		leaves []c20Leaf
	}
	vals := make([]val, len(in.Structs))
	obs := c20MultiObs{Intact: true}
	types := map[reflect.Type]int{}
	for k, e := range in.Structs {
		typ, leaves := c20Build(e.Fields)
		ptr := reflect.New(typ)
		for _, l := range leaves {
			ptr.Elem().FieldByIndex(l.Path).Set(c20Pre(l.F.Tid))
		}
		vals[k] = val{typ, ptr, leaves}
		types[typ]++
		if types[typ] > 1 {
			obs.SameType = true
		}
	}
	var jt []string
	seen := map[int]bool{}
	for _, v := range vals {
		for _, l := range v.leaves {
			if l.F.Tag != nil && strings.Contains(*l.F.Tag, "json") && !seen[l.F.Tid] {
				seen[l.F.Tid] = true
				jt = append(jt, r.jsonTable(l.F.Tid)...)
			}
		}
	}
	cl := &c20Client{vals: map[string]*api.SecretValue{}}
	for _, s := range in.Svc {
		cl.vals[s.Name] = &api.SecretValue{Value: append([]byte{}, s.Value...), Version: 1}
	}
	logf := func(string, ...any) {}
	var st *setec.Store
	var runErr error
	ctx, cancel := context.WithCancel(context.Background())
	defer cancel()
	func() {
		defer func() {
			if p := recover(); p != nil {
				obs.Panic = fmt.Sprint(p)
			}
		}()
		switch in.Mode {
		case "snew":
			var structs []setec.Struct
			for k, e := range in.Structs {
				structs = append(structs, setec.Struct{Value: vals[k].ptr.Interface(), Prefix: e.Prefix})
			}
			cl.onMiss = cancel
			st, runErr = newStoreReleased(ctx, setec.StoreConfig{Client: cl, Secrets: in.Declared, AllowLookup: in.Allow,
				Structs: structs, PollInterval: -1, Logf: logf})
			cl.onMiss = nil
			switch {
			case runErr == nil:
				obs.ErrClass = 0
			case len(cl.log) == 0:
				obs.ErrClass = 1
			case cl.missing:
				obs.ErrClass = 3
			default:
				obs.ErrClass = 2
				obs.NErrs = c20CountErrs(runErr)
			}
			obs.Reqs = append([]string{}, cl.log...)
			sort.Strings(obs.Reqs)
		default: // sapply
			var err error
			st, err = newStoreReleased(ctx, setec.StoreConfig{Client: cl, Secrets: in.Declared, AllowLookup: in.Allow,
				PollInterval: -1, Logf: logf})
			if err != nil {
				obs.ErrClass = 9
				runErr = err
				return
			}
			cl.log = nil
			fs := make([]*setec.Fields, len(in.Structs))
			for k, e := range in.Structs {
				f, err := setec.ParseFields(vals[k].ptr.Interface(), e.Prefix)
				if err != nil {
					obs.ErrClass = 1
					runErr = err
					return
				}
				fs[k] = f
			}
			for _, k := range in.Order {
				if k < 0 || k >= len(fs) {
					continue
				}
				p := [2]uint64{0, 0}
				if err := fs[k].Apply(ctx, st); err != nil {
					p = [2]uint64{2, c20CountErrs(err)}
					runErr = err
				}
				obs.Per = append(obs.Per, p)
			}
			obs.Reqs = append([]string{}, cl.log...)
		}
	}()
	if st != nil {
		defer st.Close()
	}
	if runErr != nil {
		obs.Err = runErr.Error()
		if len(obs.Err) > 300 {
			obs.Err = obs.Err[:300]
		}
	}
	// every leaf of EVERY value
	var pokes []pokeT
	handles := make([][]int, len(vals))
	for k, v := range vals {
		locs, pk, hs := r.observe(v.ptr, v.leaves, nil)
		obs.Locs = append(obs.Locs, locs)
		pokes = append(pokes, pk...)
		handles[k] = hs
	}
	for _, p := range pokes {
		for i := range p.b {
			p.b[i] = 0xEE
		}
	}
	if st != nil {
		for _, s := range in.Svc {
			if h := c20SafeSecret(st, s.Name); h != nil && !bytes.Equal(h.Get(), s.Value) {
				obs.Intact = false
			}
		}
	}
	if st != nil && obs.Panic == "" {
		cl.mu.Lock()
		for i, s := range in.Svc {
			v2 := []byte(fmt.Sprintf("v2#%d#%s", i, s.Name))
			cl.vals[s.Name] = &api.SecretValue{Value: v2, Version: 3}
			r.v2tok[string(v2)] = uint64(1000 + i)
		}
		cl.mu.Unlock()
		rerr := st.Refresh(ctx)
		for k, v := range vals {
			for _, i := range handles[k] {
				l := v.leaves[i]
				s := v.ptr.Elem().FieldByIndex(l.Path).Interface().(setec.Secret)
				if t, ok := r.v2tok[string(s.Get())]; ok && rerr == nil {
					obs.Locs[k][i].V2 = t
				} else {
					obs.Locs[k][i].V2 = 999994
				}
			}
		}
	}
	// ---- the case
	md := fmt.Sprintf("(MSNew %s %s)", coqBool(in.Allow), c20CoqNames(in.Declared))
	if in.Mode != "snew" {
		ord := make([]string, len(in.Order))
		for i, k := range in.Order {
			ord[i] = fmt.Sprintf("%d%%nat", k)
		}
		md = fmt.Sprintf("(MSApp %s %s %s)", coqBool(in.Allow), c20CoqNames(in.Declared), coqList(ord))
	}
	ents := make([]string, len(in.Structs))
	for k, e := range in.Structs {
		ents[k] = fmt.Sprintf("(%s, %s)", c20CoqShape(e.Fields), coqBytes([]byte(e.Prefix)))
	}
	var svc, unmfail []string
	failSeen := map[uint64]bool{}
	for _, s := range in.Svc {
		t := r.vtok[string(s.Value)]
		svc = append(svc, fmt.Sprintf("(%s,(1,%d))", coqBytes([]byte(s.Name)), t))
		if len(s.Value) > 0 && s.Value[0] == '!' && !failSeen[t] {
			failSeen[t] = true
			unmfail = append(unmfail, fmt.Sprint(t))
		}
	}
	head := fmt.Sprintf("CMulti %s %s %s %s %s ", md, coqList(ents), coqList(svc), coqList(unmfail), coqList(jt))
	kb, _ := json.Marshal(in)
	tags := []string{"multi-" + in.Mode, fmt.Sprintf("multi-values-%d", len(in.Structs))}
	if obs.SameType {
		tags = append(tags, "multi-same-type")
	}
	if n := len(in.Structs); n >= 2 && len(in.Fail) > 0 {
		lastFails, earlier := false, false
		for _, k := range in.Fail {
			if k == n-1 {
				lastFails = true
			} else {
				earlier = true
			}
		}
		if earlier && !lastFails {
			tags = append(tags, "multi-"+in.Mode+"-nonlast-fails-last-clean")
		}
		if earlier {
			tags = append(tags, "multi-"+in.Mode+"-nonlast-fails")
		}
	}
	if in.Mode == "snew" {
		tags = append(tags, fmt.Sprintf("multi-errclass-%d", obs.ErrClass))
	}
	rec = Record{Kind: "multi", Input: in, Obs: c20MultiFull{Obs: obs, Head: head}, Key: string(kb),
		Nontrivial: len(in.Structs) >= 2 && (obs.ErrClass == 0 || obs.ErrClass == 2), Tags: tags,
		Coq: head + obs.coq()}
	if obs.Panic != "" {
		rec.Direct = &DirectVerdict{OK: false, What: "panic inside the struct plumbing on an in-domain input: " + obs.Panic}
	}
	return rec
}

// observe projects every leaf field of one struct value; base = the contents "unchanged" refers to (nil: the
// sentinels).  Also returns the populated []byte buffers and the indices of the populated handle fields.
func (r *c20Run) observe(ptr reflect.Value, leaves []c20Leaf, base []reflect.Value) (locs []c20Loc, pokes []pokeT, handles []int) {
	for k, l := range leaves {
		post := ptr.Elem().FieldByIndex(l.Path)
		ref := c20Pre(l.F.Tid)
		if base != nil {
			ref = base[k]
		}
		ol := c20Loc{I: l.I, J: l.J, Unch: c20Same(l.F.Tid, post, ref)}
		switch l.F.Tid {
		case c20TidBytes:
			ol.Vt = r.tokOf(post.Bytes())
			if !ol.Unch {
				pokes = append(pokes, pokeT{post.Bytes()})
			}
		case c20TidString:
			ol.Vt = r.tokOf([]byte(post.String()))
		case c20TidHandle:
			if s := post.Interface().(setec.Secret); s != nil {
				ol.Vt = r.tokOf(s.Get())
				if !ol.Unch {
					handles = append(handles, len(locs))
				}
			} else {
				ol.Vt = 999996
			}
		case c20TidUnmVal, c20TidUnmNil, c20TidUnmSet:
			var rc *C20Rec
			if l.F.Tid == c20TidUnmVal {
				x := post.Interface().(C20Rec)
				rc = &x
			} else {
				rc = post.Interface().(*C20Rec)
			}
			switch {
			case rc == nil || rc.N == 0:
				ol.Vt = 0
			case rc.N == 1:
				ol.Vt = r.tokOf(rc.Got)
			default:
				ol.Vt = 999995
			}
		}
		ol.Dt = r.dtokOf(l.F.Tid, post)
		ol.Show = c20Show(post)
		locs = append(locs, ol)
	}
	return
}

func c20Exec(in c20Input) (rec Record) {
	switch in.Kind {
	case "join":
		res := path.Join(in.A, in.B)
		return Record{Kind: "join", Input: in, Obs: res, Key: "join:" + in.A + "\x00" + in.B,
			Nontrivial: in.A != "" && in.B != "", Tags: []string{"join"},
			Coq: fmt.Sprintf("CJoin %s %s %s", coqBytes([]byte(in.A)), coqBytes([]byte(in.B)), coqBytes([]byte(res)))}
	case "joinrow":
		return c20JoinRow(in)
	case "multi":
		return c20ExecMulti(in)
	case "domain":
		return c20Domain(in)
	case "run":
	default:
		fatal("C20: unknown kind %q", in.Kind)
	}

	r := &c20Run{in: in, vtok: map[string]uint64{}, v2tok: map[string]uint64{}, tables: map[int][]reflect.Value{}}
	for _, s := range append(append([]c20Secret{}, in.Svc...), in.Svc2...) {
		if _, ok := r.vtok[string(s.Value)]; !ok {
			r.vtok[string(s.Value)] = uint64(len(r.vtok) + 1)
		}
	}
	typ, leaves := c20Build(in.Fields)
	ptr := reflect.New(typ)
	for _, l := range leaves {
		ptr.Elem().FieldByIndex(l.Path).Set(c20Pre(l.F.Tid))
	}
	var arg any
	switch in.Arg {
	case "ptr":
		arg = ptr.Interface()
	case "struct":
		arg = ptr.Elem().Interface()
	case "nil":
		arg = nil // ParseFields(nil, ..) / Struct{Value: nil}
		leaves = nil
	case "nilptr":
		arg = reflect.Zero(reflect.PointerTo(typ)).Interface() // (*T)(nil): the type is a struct pointer, there is no struct
		leaves = nil
	default:
		arg = new(string)
		leaves = nil // nothing to look at: the argument is not the struct
	}

	cl := &c20Client{vals: map[string]*api.SecretValue{}}
	for _, s := range in.Svc {
		cl.vals[s.Name] = &api.SecretValue{Value: append([]byte{}, s.Value...), Version: 1}
	}
	logf := func(string, ...any) {}
	var obs c20Obs
	var st *setec.Store
	var runErr error
	ctx, cancel := context.WithCancel(context.Background())
	defer cancel()

	// the projection of every leaf field; base = the contents "unchanged" refers to (nil: the sentinels)
	var lastPokes []pokeT
	var lastHandles []int
	var baseline []reflect.Value
	observeLeaves := func(base []reflect.Value) []c20Loc {
		var locs []c20Loc
		locs, lastPokes, lastHandles = r.observe(ptr, leaves, base)
		return locs
	}
	// JSON decode tables for the types that have a field whose tag mentions json
	var jt []string
	seen := map[int]bool{}
	for _, l := range leaves {
		if l.F.Tag != nil && strings.Contains(*l.F.Tag, "json") && !seen[l.F.Tid] {
			seen[l.F.Tid] = true
			jt = append(jt, r.jsonTable(l.F.Tid)...)
		}
	}

	finalSvc, finalCl := in.Svc, cl
	var extraStores []*setec.Store

	func() {
		defer func() {
			if p := recover(); p != nil {
				obs.Panic = fmt.Sprint(p)
			}
		}()
		switch in.Mode {
		case "new":
			cl.onMiss = cancel
			st, runErr = newStoreReleased(ctx, setec.StoreConfig{Client: cl, Secrets: in.Declared, AllowLookup: in.Allow,
				Structs: []setec.Struct{{Value: arg, Prefix: in.Prefix}}, PollInterval: -1, Logf: logf})
			cl.onMiss = nil
			switch {
			case runErr == nil:
				obs.ErrClass = 0
			case len(cl.log) == 0:
				obs.ErrClass = 1
			case cl.missing:
				obs.ErrClass = 3
			default:
				obs.ErrClass = 2
			}
			obs.Reqs = append([]string{}, cl.log...)
			sort.Strings(obs.Reqs)
		case "reapply":
			// ONE parsed Fields, applied twice: nothing of the first Apply may survive in the Fields value
			st1, err := newStoreReleased(ctx, setec.StoreConfig{Client: cl, Secrets: in.Declared, AllowLookup: in.Allow,
				PollInterval: -1, Logf: logf})
			if err != nil {
				obs.ErrClass = 9
				runErr = err
				return
			}
			extraStores = append(extraStores, st1)
			cl.log = nil
			f, err := setec.ParseFields(arg, in.Prefix)
			if err != nil {
				obs.ErrClass = 1
				runErr = err
				break
			}
			o1 := c20Obs{Intact: true}
			if err1 := f.Apply(ctx, st1); err1 != nil {
				o1.ErrClass, o1.NErrs = 2, c20CountErrs(err1)
				o1.Err = err1.Error()
				if len(o1.Err) > 300 {
					o1.Err = o1.Err[:300]
				}
			}
			o1.Reqs = append([]string{}, cl.log...)
			o1.Locs = observeLeaves(nil)
			obs.First = &o1
			// between the two: handle fields, json-verb fields and the types only json can fill go back to their
			// sentinel (their projections are relative to it); []byte and string fields keep what they hold;
			// unmarshaler fields keep the bytes they recorded, only their call counter is zeroed
			for _, l := range leaves {
				fv := ptr.Elem().FieldByIndex(l.Path)
				// (a set-up decision, not a comparison: a field decoded with the json verb has no
				// UnmarshalBinary bound to it, so it can be put back completely)
				jsonVerb := false
				if l.F.Tag != nil {
					if parts := strings.Split(*l.F.Tag, ","); len(parts) > 1 {
						jsonVerb = slices.Contains(parts[1:], "json")
					}
				}
				switch {
				case l.F.Tid == c20TidHandle || l.F.Tid >= 6 || jsonVerb:
					fv.Set(c20Pre(l.F.Tid))
				case l.F.Tid == c20TidUnmVal:
					x := fv.Interface().(C20Rec)
					x.N = 0
					fv.Set(reflect.ValueOf(x))
				case l.F.Tid == c20TidUnmNil || l.F.Tid == c20TidUnmSet:
					// the pointer itself stays: ParseFields bound UnmarshalBinary to THIS object
					if x := fv.Interface().(*C20Rec); x != nil {
						x.N = 0
					}
				}
			}
			baseline = make([]reflect.Value, len(leaves))
			for k, l := range leaves {
				baseline[k] = c20Snap(l.F.Tid, ptr.Elem().FieldByIndex(l.Path))
			}
			if in.Same {
				// new versions for the same store
				cl.mu.Lock()
				merged := map[string]c20Secret{}
				var order []string
				for _, s := range in.Svc {
					merged[s.Name] = s
					order = append(order, s.Name)
				}
				for _, s := range in.Svc2 {
					if _, ok := merged[s.Name]; !ok {
						order = append(order, s.Name)
					}
					merged[s.Name] = s
					cl.vals[s.Name] = &api.SecretValue{Value: append([]byte{}, s.Value...), Version: 2}
				}
				cl.mu.Unlock()
				finalSvc = nil
				for _, n := range order {
					finalSvc = append(finalSvc, merged[n])
				}
				if err := st1.Refresh(ctx); err != nil {
					obs.ErrClass = 9
					runErr = err
					return
				}
				st = st1
				extraStores = nil
			} else {
				cl2 := &c20Client{vals: map[string]*api.SecretValue{}}
				for _, s := range in.Svc2 {
					cl2.vals[s.Name] = &api.SecretValue{Value: append([]byte{}, s.Value...), Version: 1}
				}
				cl2.onMiss = cancel
				st2, err := newStoreReleased(ctx, setec.StoreConfig{Client: cl2, Secrets: in.Declared2, AllowLookup: in.Allow2,
					PollInterval: -1, Logf: logf})
				cl2.onMiss = nil
				if err != nil {
					obs.ErrClass = 9
					runErr = err
					return
				}
				st, finalSvc, finalCl = st2, in.Svc2, cl2
			}
			finalCl.log = nil
			if err := f.Apply(ctx, st); err != nil {
				obs.ErrClass = 2
				runErr = err
			}
			obs.Reqs = append([]string{}, finalCl.log...)
		case "decl":
			// the documented way to declare a struct's secrets by hand: the names come from Secrets(),
			// the store is built over them, then the SAME Fields value is applied
			f, err := setec.ParseFields(arg, in.Prefix)
			if err != nil {
				obs.ErrClass = 1
				runErr = err
				break
			}
			got := f.Secrets()
			obs.Sec1 = append([]string{}, got...)
			cfg := got // the very slice: NewStore sorts and compacts cfg.Secrets in place
			if in.Copy {
				cfg = append([]string{}, got...)
			}
			if len(in.Declared) > 0 {
				cfg = append(cfg, in.Declared...)
			}
			cl.onMiss = cancel
			st, runErr = newStoreReleased(ctx, setec.StoreConfig{Client: cl, Secrets: cfg, AllowLookup: in.Allow,
				PollInterval: -1, Logf: logf})
			cl.onMiss = nil
			switch in.Scribble {
			case "sort":
				sort.Strings(got)
			case "reverse":
				slices.Reverse(got)
			case "overwrite":
				for i := range got {
					got[i] = "zz/overwritten"
				}
			case "clear":
				clear(got)
			case "rotate":
				if len(got) > 1 {
					first := got[0]
					copy(got, got[1:])
					got[len(got)-1] = first
				}
			}
			switch {
			case runErr == nil:
				if err := f.Apply(ctx, st); err != nil {
					obs.ErrClass = 2
					runErr = err
				}
			case len(cl.log) == 0:
				obs.ErrClass = 1
			case cl.missing:
				obs.ErrClass = 3
			default:
				obs.ErrClass = 2
			}
			obs.Sec2 = append([]string{}, f.Secrets()...)
			obs.Reqs = append([]string{}, cl.log...)
			sort.Strings(obs.Reqs)
		default:
			var err error
			st, err = newStoreReleased(ctx, setec.StoreConfig{Client: cl, Secrets: in.Declared, AllowLookup: in.Allow,
				PollInterval: -1, Logf: logf})
			if err != nil {
				obs.ErrClass = 9
				runErr = err
				return
			}
			cl.log = nil
			f, err := setec.ParseFields(arg, in.Prefix)
			if err != nil {
				obs.ErrClass = 1
				runErr = err
			} else if err := f.Apply(ctx, st); err != nil {
				obs.ErrClass = 2
				runErr = err
			}
			obs.Reqs = append([]string{}, cl.log...)
		}
	}()
	if st != nil {
		defer st.Close()
	}
	for _, x := range extraStores {
		defer x.Close()
	}
	if runErr != nil {
		obs.Err = runErr.Error()
		if len(obs.Err) > 300 {
			obs.Err = obs.Err[:300]
		}
	}
	obs.NErrs = c20CountErrs(runErr)
	if obs.ErrClass != 2 {
		obs.NErrs = 0
	}

	// every leaf field after the run
	for k, ol := range observeLeaves(baseline) {
		_ = k
		obs.Locs = append(obs.Locs, ol)
	}
	pokes, handles := lastPokes, lastHandles

	// overwrite every populated []byte field in place, then re-read the store
	for _, p := range pokes {
		for i := range p.b {
			p.b[i] = 0xEE
		}
	}
	obs.Intact = true
	if st != nil {
		for _, s := range finalSvc {
			if h := c20SafeSecret(st, s.Name); h != nil && !bytes.Equal(h.Get(), s.Value) {
				obs.Intact = false
			}
		}
	}

	// liveness and binding of handle fields: give every name a second version, refresh, read
	if st != nil && obs.Panic == "" {
		finalCl.mu.Lock()
		for i, s := range finalSvc {
			v2 := []byte(fmt.Sprintf("v2#%d#%s", i, s.Name))
			finalCl.vals[s.Name] = &api.SecretValue{Value: v2, Version: 3}
			r.v2tok[string(v2)] = uint64(1000 + i)
		}
		finalCl.mu.Unlock()
		rerr := st.Refresh(ctx)
		for _, k := range handles {
			l := leaves[k]
			s := ptr.Elem().FieldByIndex(l.Path).Interface().(setec.Secret)
			if t, ok := r.v2tok[string(s.Get())]; ok && rerr == nil {
				obs.Locs[k].V2 = t
			} else {
				obs.Locs[k].V2 = 999994
			}
		}
	}

	// ---- the case
	md := "MApp"
	if in.Mode == "new" {
		md = "MNew"
	}
	if in.Mode == "decl" {
		md = "MDecl"
	}
	if in.Mode == "reapply" {
		md = "MRe"
	}
	var a string
	switch in.Arg {
	case "ptr":
		a = "(AP " + c20CoqShape(in.Fields) + ")"
	case "struct":
		a = "(AS " + c20CoqShape(in.Fields) + ")"
	case "nil":
		a = "AZ"
	case "nilptr":
		a = "(AZP " + c20CoqShape(in.Fields) + ")"
	default:
		a = "AN"
	}
	var svc, svc2, unmfail []string
	failSeen := map[uint64]bool{}
	for _, s := range in.Svc {
		t := r.vtok[string(s.Value)]
		svc = append(svc, fmt.Sprintf("(%s,(1,%d))", coqBytes([]byte(s.Name)), t))
		if len(s.Value) > 0 && s.Value[0] == '!' && !failSeen[t] {
			failSeen[t] = true
			unmfail = append(unmfail, fmt.Sprint(t))
		}
	}
	if in.Mode == "reapply" {
		// the service the second Apply runs against (for the same store: the merged view, new versions)
		for _, s := range finalSvc {
			t := r.vtok[string(s.Value)]
			ver := 1
			if in.Same {
				ver = 2
			}
			svc2 = append(svc2, fmt.Sprintf("(%s,(%d,%d))", coqBytes([]byte(s.Name)), ver, t))
			if len(s.Value) > 0 && s.Value[0] == '!' && !failSeen[t] {
				failSeen[t] = true
				unmfail = append(unmfail, fmt.Sprint(t))
			}
		}
	}
	mkHead := func(sec1, sec2 []string) string {
		mdTail := ""
		if in.Mode == "decl" {
			mdTail = " " + c20CoqNames(sec1) + " " + c20CoqNames(sec2)
		}
		if in.Mode == "reapply" {
			o1 := "(Ob 1 0 [] [] true)"
			if obs.First != nil {
				o1 = obs.First.coq()
			}
			mdTail = fmt.Sprintf(" %s %s %s %s %s", coqBool(in.Same), coqBool(in.Allow2), c20CoqNames(in.Declared2), coqList(svc2), o1)
		}
		return fmt.Sprintf("CRun (%s %s %s%s) %s %s %s %s %s ", md, coqBool(in.Allow), c20CoqNames(in.Declared), mdTail, a,
			coqBytes([]byte(in.Prefix)), coqList(svc), coqList(unmfail), coqList(jt))
	}
	head := mkHead(obs.Sec1, obs.Sec2)
	kb, _ := json.Marshal(in)
	ntag := 0
	for _, l := range leaves {
		if l.F.Tag != nil {
			ntag++
		}
	}
	rec = Record{Kind: "run", Input: in, Obs: c20Full{Obs: obs, Head: head, MkHead: mkHead}, Key: string(kb),
		Nontrivial: in.Arg == "ptr" && ntag >= 2 && (obs.ErrClass == 0 || obs.ErrClass == 2),
		Coq:        head + obs.coq()}
	rec.Tags = c20Tags(in, obs, leaves)
	if obs.Panic != "" {
		rec.Direct = &DirectVerdict{OK: false, What: "panic inside the struct plumbing on an in-domain input: " + obs.Panic}
	}
	return rec
}

// c20Full is what goes into the record's obs: the observation plus (not serialised) the
// Gallina prefix, so that self-test variants can be rendered.
type c20Full struct {
	Obs    c20Obs                        `json:"observed"`
	Head   string                        `json:"-"`
	MkHead func(s1, s2 []string) string `json:"-"`
}

func c20Show(v reflect.Value) string {
	var s string
	switch x := v.Interface().(type) {
	case setec.Secret:
		if x == nil {
			return "nil"
		}
		s = fmt.Sprintf("handle:%q", x.Get())
	case []byte:
		s = fmt.Sprintf("%q", x)
	case *C20Rec:
		if x == nil {
			return "nil"
		}
		s = fmt.Sprintf("&{%q %d}", x.Got, x.N)
	case C20Rec:
		s = fmt.Sprintf("{%q %d}", x.Got, x.N)
	case *int:
		if x == nil {
			return "nil"
		}
		s = fmt.Sprintf("&%d", *x)
	default:
		s = fmt.Sprintf("%#v", x)
	}
	if len(s) > 60 {
		s = s[:60] + "..."
	}
	return s
}

func c20Tags(in c20Input, obs c20Obs, leaves []c20Leaf) []string {
	tags := []string{"mode-" + in.Mode, fmt.Sprintf("errclass-%d", obs.ErrClass), "arg-" + in.Arg}
	if in.Mode == "decl" {
		tags = append(tags, "scribble-"+in.Scribble)
		if !sort.StringsAreSorted(obs.Sec1) {
			tags = append(tags, "names-unsorted")
		}
		seen := map[string]bool{}
		for _, n := range obs.Sec1 {
			if seen[n] {
				tags = append(tags, "names-duplicate")
				break
			}
			seen[n] = true
		}
	}
	if in.Allow {
		tags = append(tags, "allow-lookup")
	}
	if in.Prefix == "" {
		tags = append(tags, "prefix-empty")
	} else if strings.Contains(in.Prefix, "/") {
		tags = append(tags, "prefix-multi")
	} else {
		tags = append(tags, "prefix-single")
	}
	emb := false
	for _, f := range in.Fields {
		emb = emb || f.Emb
	}
	if emb {
		tags = append(tags, "embedded")
	}
	kinds := map[string]bool{}
	for _, l := range leaves {
		k := fmt.Sprintf("type-%d", l.F.Tid)
		if l.F.Tag == nil {
			k += "-untagged"
		} else if strings.Contains(*l.F.Tag, ",json") {
			k += "-json"
		}
		kinds[k] = true
	}
	for _, k := range sortedKeys(kinds) {
		tags = append(tags, k)
	}
	tags = append(tags, fmt.Sprintf("fields-%d", len(leaves)))
	if obs.ErrClass == 2 {
		tags = append(tags, fmt.Sprintf("joined-errors-%d", min(int(obs.NErrs), 4)))
	}
	return tags
}

// ---- inputs outside the property's domain (a tagged field promoted through an embedded POINTER):
// recorded, not compared.  The former candidates nil-any / nil-structptr / nil-structptr-untagged are
// ordinary compared run cases since the F9 repair (arg kinds "nil" and "nilptr").

type c20Emb struct {
	A string `setec:"ea"`
}

func c20Domain(in c20Input) Record {
	res := map[string]any{"what": in.What}
	func() {
		defer func() {
			if p := recover(); p != nil {
				res["panic"] = fmt.Sprint(p)
			}
		}()
		var f *setec.Fields
		var err error
		switch in.What {
		case "nil-embedded-ptr":
			type T struct{ *c20Emb }
			f, err = setec.ParseFields(&T{}, in.Prefix)
		case "set-embedded-ptr":
			type T struct{ *c20Emb }
			f, err = setec.ParseFields(&T{&c20Emb{}}, in.Prefix)
		default:
			res["unknown"] = true
		}
		if err != nil {
			res["error"] = err.Error()
		}
		if f != nil {
			res["secrets"] = f.Secrets()
		}
	}()
	return Record{Kind: "domain", Input: in, Obs: res, Key: "domain:" + in.What, Tags: []string{"outside-domain"},
		Coq: "CDomain 0"}
}

// ---- path.Join as a pure function: exhaustive rows over a small alphabet

var c20Alpha = []byte{'a', 'b', '/', '.', '\n'}

// all strings over alpha of length k, in the order of Run_C20.level: for a in alpha, for w in level(k-1): a followed by w
func c20Level(alpha []byte, k int) []string {
	if k == 0 {
		return []string{""}
	}
	prev := c20Level(alpha, k-1)
	out := make([]string, 0, len(alpha)*len(prev))
	for _, a := range alpha {
		for _, w := range prev {
			out = append(out, string(a)+w)
		}
	}
	return out
}

func c20Upto(alpha []byte, n int) []string {
	var out []string
	for k := 0; k <= n; k++ {
		out = append(out, c20Level(alpha, k)...)
	}
	return out
}

func c20Code(alpha []byte, s string) uint64 {
	base := uint64(len(alpha) + 1)
	var acc uint64
	for i := 0; i < len(s); i++ {
		d := uint64(0)
		for j, a := range alpha {
			if a == s[i] {
				d = uint64(j + 1)
				break
			}
		}
		acc = acc*base + d
	}
	return acc
}

func c20JoinRow(in c20Input) Record {
	others := c20Upto(c20Alpha, in.N)
	codes := make([]string, len(others))
	for i, w := range others {
		o := in.Head + w
		var res string
		if in.Swap {
			res = path.Join(o, in.A)
		} else {
			res = path.Join(in.A, o)
		}
		codes[i] = strconv.FormatUint(c20Code(c20Alpha, res), 10)
	}
	al := make([]string, len(c20Alpha))
	for i, a := range c20Alpha {
		al[i] = strconv.Itoa(int(a))
	}
	return Record{Kind: "joinrow", Input: in, Obs: map[string]any{"pairs": len(others)},
		Key: fmt.Sprintf("joinrow:%v:%q:%q:%d", in.Swap, in.A, in.Head, in.N), Nontrivial: in.A != "", Tags: []string{"joinrow"},
		Coq: fmt.Sprintf("CJoinRow %s %s %s %s %d%%nat %s", coqList(al), coqBool(in.Swap), coqBytes([]byte(in.A)), coqBytes([]byte(in.Head)), in.N, coqList(codes))}
}

// the rows that together cover EVERY pair (prefix, name) over c20Alpha with len(prefix)+len(name) <= total:
// prefixes of length <= 3 against all names that fit, and names of length <= total-4 against all prefixes that fit
func c20JoinRows(total int) []c20Input {
	var rows []c20Input
	// one fixed argument against every other argument of length <= n; rows longer than 5^6 pairs are cut
	// by the first byte of the enumerated argument (a 100 000-element list literal overflows coqc's stack)
	add := func(a string, n int, swap bool) {
		if n <= 6 {
			rows = append(rows, c20Input{Kind: "joinrow", A: a, N: n, Swap: swap})
			return
		}
		rows = append(rows, c20Input{Kind: "joinrow", A: a, N: 0, Swap: swap})
		for _, c := range c20Alpha {
			rows = append(rows, c20Input{Kind: "joinrow", A: a, Head: string(c), N: n - 1, Swap: swap})
		}
	}
	for _, a := range c20Upto(c20Alpha, 3) {
		add(a, total-len(a), false)
	}
	if total > 4 {
		for _, b := range c20Upto(c20Alpha, total-4) {
			add(b, total-len(b), true)
		}
	}
	return rows
}

// a path that path.Clean changes: trailing / doubled slashes, "." and ".." elements, rooted
func c20DirtyPath(r *rand.Rand) string {
	seg := func() string { return c20SegPool[r.IntN(len(c20SegPool))] }
	switch r.IntN(18) {
	case 0:
		return seg() + "/"
	case 1:
		return "./" + seg()
	case 2:
		return seg() + "//" + seg()
	case 3:
		return seg() + "/../" + seg()
	case 4:
		return "/" + seg()
	case 5:
		return "."
	case 6:
		return ".."
	case 7:
		return seg() + "/."
	case 8:
		return "//" + seg() + "/"
	case 9:
		return seg() + "/./" + seg()
	case 10:
		return "../" + seg()
	case 11:
		return seg() + "/.."
	case 12:
		return "/"
	case 13:
		return "./"
	case 14:
		return seg() + "/" + seg() + "/../../" + seg() + "//"
	case 15:
		return "/../" + seg()
	case 16:
		return seg() + "/" + seg() + "/"
	default:
		return "../../" + seg() + "/./"
	}
}

// ---- generation

var c20SegPool = []string{"a", "b", "db", "key", "prod", "dev", "x1", "api-key", "tok_en", ".hid", "a.b", "...", "c..", " sp", "sp ", "Q"}

func c20CleanName(r *rand.Rand, maxSegs int) string {
	n := 1 + r.IntN(maxSegs)
	segs := make([]string, n)
	for i := range segs {
		segs[i] = c20SegPool[r.IntN(len(c20SegPool))]
	}
	return strings.Join(segs, "/")
}

func c20Value(r *rand.Rand, tid int, isJSON bool) []byte {
	if isJSON && r.IntN(6) != 0 {
		var pool []string
		switch tid {
		case 0:
			pool = []string{`"aGVsbG8="`, `"AAEC"`, `""`, `"not base64!"`}
		case 1:
			pool = []string{`"hi"`, `"aéb"`, `""`, `12`}
		case 2:
			pool = []string{`null`, `"f"`}
		case 3, 4, 5:
			pool = []string{`{"Got":"aGk=","N":4}`, `{"N":9}`, `{}`, `{"N":"x"}`}
		case 6:
			pool = []string{`42`, `-7`, `12345`, `1.5`, `"9"`}
		case 7:
			pool = []string{`true`, `false`, `0`}
		case 8:
			pool = []string{`{"a":3,"b":"x"}`, `{"a":4}`, `{"b":"only"}`, `{"a":"bad","b":"kept"}`, `{"a":3,"b":"x"} `}
		case 9:
			pool = []string{`{"k":1}`, `{"pre":2,"z":3}`, `{}`, `{"k":"v"}`}
		case 10:
			pool = []string{`2.5`, `-1e3`, `7`}
		case 11:
			pool = []string{`9`, `null`, `-1`}
		}
		return []byte(pool[r.IntN(len(pool))])
	}
	switch r.IntN(14) {
	case 0:
		return []byte{}
	case 1:
		return []byte(`{"a":`) // never valid JSON
	case 2:
		if tid >= 3 && tid <= 5 || r.IntN(3) == 0 {
			return []byte("!refuse" + strconv.Itoa(r.IntN(3)))
		}
	case 3:
		return []byte{0xff, 0xfe, byte(r.IntN(256)), 0x00, 'z'} // not UTF-8
	}
	n := 1 + r.IntN(8)
	b := make([]byte, n)
	const al = "abcxyz0189-_/ ,\"{}"
	for i := range b {
		b[i] = al[r.IntN(len(al))]
	}
	if b[0] == '!' {
		b[0] = 'k'
	}
	return b
}

func c20RandTid(r *rand.Rand) int {
	switch x := r.IntN(100); {
	case x < 18:
		return 0
	case x < 36:
		return 1
	case x < 50:
		return 2
	case x < 60:
		return 3
	case x < 66:
		return 4
	case x < 72:
		return 5
	default:
		return 6 + r.IntN(c20TidMax-6+1)
	}
}

func c20GenField(r *rand.Rand, name string, names []string, valid bool) c20Field {
	f := c20Field{Name: name, Tid: c20RandTid(r)}
	if r.IntN(4) == 0 {
		return f // untagged
	}
	nm := names[r.IntN(len(names))]
	verbs := ""
	supported := f.Tid <= 5
	switch x := r.IntN(100); {
	case !supported && (valid || x < 75):
		verbs = []string{",json", ",json", ",json,omitempty", ",x,json", ",,json"}[r.IntN(5)]
	case !supported:
		verbs = []string{"", ",jsonx", ",JSON", ", json", ","}[r.IntN(5)]
	case x < 68:
		verbs = ""
	case x < 84:
		verbs = []string{",json", ",opt,json"}[r.IntN(2)]
	default:
		verbs = []string{",jsonx", ",JSON", ",", ",omitempty", ", json", ",json "}[r.IntN(6)]
	}
	if !valid {
		switch r.IntN(30) {
		case 0:
			nm = ""
		case 1:
			nm, verbs = "", ""
		}
	}
	t := nm + verbs
	f.Tag = &t
	return f
}

func c20TagName(t string) string { // generator-side only: which name a tag will ask for (to stock the service)
	if i := strings.IndexByte(t, ','); i >= 0 {
		return t[:i]
	}
	return t
}

// c20Unsort makes the order of the tag names differ from their sorted order, deliberately: the names
// of the tagged leaf fields (in declaration order) are re-dealt in DESCENDING order (70%) or shuffled,
// and in 40% one name is used by two fields - so that an implementation that pairs fields with a name
// list somebody else may have sorted, compacted or overwritten cannot get away with it.
func c20Unsort(r *rand.Rand, fs []c20Field) {
	var tags []*string
	var walk func(fs []c20Field)
	walk = func(fs []c20Field) {
		for i := range fs {
			if fs[i].Emb {
				walk(fs[i].Inner)
			} else if fs[i].Tag != nil && c20TagName(*fs[i].Tag) != "" {
				tags = append(tags, fs[i].Tag)
			}
		}
	}
	walk(fs)
	if len(tags) < 2 {
		return
	}
	split := func(t string) (string, string) {
		if i := strings.IndexByte(t, ','); i >= 0 {
			return t[:i], t[i:]
		}
		return t, ""
	}
	names := make([]string, len(tags))
	for i, t := range tags {
		names[i], _ = split(*t)
	}
	if r.IntN(10) < 7 {
		sort.Sort(sort.Reverse(sort.StringSlice(names)))
	} else {
		r.Shuffle(len(names), func(i, j int) { names[i], names[j] = names[j], names[i] })
	}
	if r.IntN(10) < 4 {
		names[len(names)-1] = names[0] // one secret for two fields (first and last: never adjacent when sorted descending)
	}
	for i, t := range tags {
		_, verbs := split(*t)
		*t = names[i] + verbs
	}
}

// ---- several struct values: generation.  The field kinds are chosen so that success and failure of a field
// are scripted by the secret's value alone: a good value always applies, a bad one never does.

func c20MultiField(r *rand.Rand, i int, names []string) c20Field {
	f := c20Field{Name: fmt.Sprintf("F%d", i)}
	nm := fmt.Sprintf("%s_%d", names[r.IntN(len(names))], i) // one secret per field: its value scripts this field alone
	tag := func(verbs string) *string { t := nm + verbs; return &t }
	switch r.IntN(11) {
	case 0:
		f.Tid = 1 // untagged string
	case 1, 2:
		f.Tid, f.Tag = 0, tag("")
	case 3, 4:
		f.Tid, f.Tag = 1, tag("")
	case 5:
		f.Tid, f.Tag = 2, tag("")
	case 6:
		f.Tid, f.Tag = 3, tag("")
	case 7:
		f.Tid, f.Tag = 5, tag("")
	case 8:
		f.Tid, f.Tag = 6, tag(",json")
	case 9:
		f.Tid, f.Tag = 8, tag(",json")
	default:
		f.Tid, f.Tag = 9, tag(",opt,json")
	}
	return f
}

func c20MultiValue(r *rand.Rand, f c20Field, good bool) []byte {
	switch f.Tid {
	case 6:
		if good {
			return []byte(strconv.Itoa(r.IntN(90000)))
		}
		return []byte(`{"a":`)
	case 8:
		if good {
			return []byte(fmt.Sprintf(`{"a":%d,"b":"x%d"}`, r.IntN(1000), r.IntN(1000)))
		}
		return []byte(`{"a":"bad"}`)
	case 9:
		if good {
			return []byte(fmt.Sprintf(`{"k":%d}`, r.IntN(1000)))
		}
		return []byte(`[1]`)
	case 3, 4, 5:
		if !good {
			return []byte("!refuse" + strconv.Itoa(r.IntN(3)))
		}
	}
	return []byte(fmt.Sprintf("val-%d-%d", f.Tid, r.IntN(1000000)))
}

func c20Failable(f c20Field) bool {
	return f.Tag != nil && (f.Tid == 3 || f.Tid == 5 || f.Tid >= 6)
}

func c20GenMulti(r *rand.Rand) c20Input {
	in := c20Input{Kind: "multi", Mode: "snew", Arg: "ptr", Allow: r.IntN(2) == 0}
	if r.IntN(2) == 0 {
		in.Mode = "sapply"
	}
	n := 2
	if r.IntN(20) < 7 {
		n = 3
	}
	names := make([]string, 2+r.IntN(4))
	for i := range names {
		names[i] = c20CleanName(r, 2)
	}
	shape := func() []c20Field {
		nf := 2 + r.IntN(5)
		fs := make([]c20Field, 0, nf+1)
		for i := 0; i < nf; i++ {
			fs = append(fs, c20MultiField(r, i, names))
		}
		if r.IntN(6) == 0 { // two fields of one type share a secret
			for i := range fs {
				for j := i + 1; j < len(fs); j++ {
					if fs[i].Tag != nil && fs[j].Tag != nil && fs[i].Tid == fs[j].Tid {
						t := *fs[i].Tag
						fs[j].Tag = &t
					}
				}
			}
		}
		tagged, failable := false, false
		for _, f := range fs {
			tagged = tagged || f.Tag != nil
			failable = failable || c20Failable(f)
		}
		if !tagged || (!failable && r.IntN(4) != 0) {
			t := names[0] + "_n,json"
			fs = append(fs, c20Field{Name: fmt.Sprintf("F%d", nf), Tid: 6, Tag: &t})
		}
		if r.IntN(6) == 0 { // a struct embedded by value
			t := names[len(names)-1] + "_e"
			fs = append(fs, c20Field{Name: "E9", Emb: true, Inner: []c20Field{{Name: "G0", Tid: 1, Tag: &t}, {Name: "G1", Tid: 0}}})
		}
		return fs
	}
	sameType := r.IntN(20) < 13
	base := shape()
	pool := []string{"dev", "prod", "stage", "eu/prod", "us/prod", "test", "qa"}
	r.Shuffle(len(pool), func(i, j int) { pool[i], pool[j] = pool[j], pool[i] })
	for k := 0; k < n; k++ {
		e := c20StructIn{Fields: base, Prefix: pool[k]}
		if !sameType && k > 0 && (k == 1 || r.IntN(2) == 0) {
			e.Fields = shape()
		}
		if k > 0 && r.IntN(12) == 0 {
			e.Prefix = in.Structs[0].Prefix // two entries, one prefix: they share their secrets
		} else if r.IntN(12) == 0 {
			e.Prefix = c20DirtyPath(r)
		}
		in.Structs = append(in.Structs, e)
	}
	// who is scripted to fail
	want := make([]bool, n)
	switch x := r.IntN(20); {
	case x < 5: // an earlier struct fails, the last one is clean
		want[r.IntN(n-1)] = true
	case x < 8: // only the last one fails
		want[n-1] = true
	case x < 11:
		for k := range want {
			want[k] = r.IntN(2) == 0
		}
	}
	values := map[string][]byte{}
	var order []string
	bad := map[string]bool{}
	for k, e := range in.Structs {
		var leaves []c20Field
		for _, f := range e.Fields {
			if f.Emb {
				leaves = append(leaves, f.Inner...)
			} else {
				leaves = append(leaves, f)
			}
		}
		var cand []int
		for i, f := range leaves {
			if c20Failable(f) {
				cand = append(cand, i)
			}
		}
		failAt := -1
		if want[k] && len(cand) > 0 {
			failAt = cand[r.IntN(len(cand))]
		}
		for i, f := range leaves {
			if f.Tag == nil {
				continue
			}
			full := path.Join(e.Prefix, c20TagName(*f.Tag))
			if _, ok := values[full]; !ok {
				values[full] = c20MultiValue(r, f, true)
				order = append(order, full)
			}
			if i == failAt {
				values[full] = c20MultiValue(r, f, false)
				bad[full] = true
			}
		}
	}
	for _, full := range order {
		v := values[full]
		in.Svc = append(in.Svc, c20Secret{Name: full, Value: v, Text: fmt.Sprintf("%q", v)})
		if in.Mode == "sapply" && (r.IntN(10) < 6 || (!in.Allow && r.IntN(10) < 8)) {
			in.Declared = append(in.Declared, full)
		}
	}
	// the entries that really have a bad value under one of their names (shared prefixes spread it)
	for k, e := range in.Structs {
		fails := false
		var walk func(fs []c20Field)
		walk = func(fs []c20Field) {
			for _, f := range fs {
				if f.Emb {
					walk(f.Inner)
				} else if f.Tag != nil && bad[path.Join(e.Prefix, c20TagName(*f.Tag))] {
					fails = true
				}
			}
		}
		walk(e.Fields)
		if fails {
			in.Fail = append(in.Fail, k)
		}
	}
	if in.Mode == "snew" && r.IntN(4) == 0 {
		v := []byte("extra")
		in.Svc = append(in.Svc, c20Secret{Name: "zz/extra", Value: v, Text: `"extra"`})
		in.Declared = append(in.Declared, "zz/extra")
	}
	if in.Mode == "sapply" {
		if len(in.Declared) == 0 && !in.Allow {
			v := []byte("dummy")
			in.Svc = append(in.Svc, c20Secret{Name: "zz/declared", Value: v, Text: `"dummy"`})
			in.Declared = append(in.Declared, "zz/declared")
		}
		in.Order = r.Perm(n)
	}
	return in
}

func c20Generate(r *rand.Rand) c20Input {
	in := c20Input{Kind: "run", Arg: "ptr", Mode: "apply", Allow: r.IntN(2) == 0}
	switch x := r.IntN(20); {
	case x < 6:
		in.Mode = "new"
	case x < 10:
		in.Mode = "decl" // declare via Secrets(), then Apply
		in.Scribble = []string{"", "", "sort", "reverse", "overwrite", "clear", "rotate"}[r.IntN(7)]
		in.Copy = r.IntN(5) == 0
	case x < 14:
		in.Mode = "reapply" // one Fields applied to two stores, or twice to one store across a Refresh
		in.Same = r.IntN(20) < 7
		in.Allow2 = r.IntN(2) == 0
	}
	applyLike := in.Mode == "apply" || in.Mode == "reapply"
	switch r.IntN(50) {
	case 0, 1:
		in.Arg = "struct"
	case 2, 3:
		in.Arg = "nonstruct"
	case 4:
		in.Arg = "nil"
	case 5, 6:
		in.Arg = "nilptr" // of any shape: tagged, untagged, badly tagged, empty
	}
	if r.IntN(10) >= 3 {
		in.Prefix = c20CleanName(r, 3)
	}
	// a quarter of the cases leave the clean domain: prefixes and tag names that path.Clean changes
	dirty := r.IntN(4) == 0
	if dirty && r.IntN(5) != 0 {
		in.Prefix = c20DirtyPath(r)
	}
	valid := r.IntN(100) < 70
	names := make([]string, 2+r.IntN(5))
	for i := range names {
		names[i] = c20CleanName(r, 2)
		if dirty && r.IntN(5) < 2 {
			names[i] = c20DirtyPath(r)
		}
	}
	nf := r.IntN(9)
	if valid && nf == 0 {
		nf = 1 + r.IntN(8)
	}
	innerPool := []string{"F0", "F1", "F2", "F3", "G0", "G1", "G2", "E0", "E1"}
	for i := 0; i < nf; i++ {
		if r.IntN(100) < 14 {
			e := c20Field{Name: fmt.Sprintf("E%d", i), Emb: true}
			used := map[string]bool{}
			for k := 1 + r.IntN(3); k > 0; k-- {
				nm := innerPool[r.IntN(len(innerPool))]
				if used[nm] {
					continue
				}
				used[nm] = true
				e.Inner = append(e.Inner, c20GenField(r, nm, names, valid))
			}
			in.Fields = append(in.Fields, e)
		} else {
			in.Fields = append(in.Fields, c20GenField(r, fmt.Sprintf("F%d", i), names, valid))
		}
	}
	if in.Mode == "decl" {
		c20Unsort(r, in.Fields)
	}
	// stock the service: one secret per name any tag may ask for (generator-side guess, only
	// shapes the distribution; what IS asked is decided by the code and by the model)
	type want struct {
		tid  int
		json bool
	}
	wants := map[string]want{}
	var order []string
	var walk func(fs []c20Field)
	walk = func(fs []c20Field) {
		for _, f := range fs {
			if f.Emb {
				walk(f.Inner)
			} else if f.Tag != nil {
				full := c20TagName(*f.Tag)
				if full != "" {
					full = path.Join(in.Prefix, full) // generator-side guess of the name that will be asked for
				}
				if _, ok := wants[full]; !ok && full != "" {
					wants[full] = want{f.Tid, strings.Contains(*f.Tag, ",json")}
					order = append(order, full)
				}
			}
		}
	}
	walk(in.Fields)
	for _, full := range order {
		if applyLike && r.IntN(100) < 8 {
			continue // the service does not have it
		}
		w := wants[full]
		v := c20Value(r, w.tid, w.json)
		in.Svc = append(in.Svc, c20Secret{Name: full, Value: v, Text: fmt.Sprintf("%q", v)})
		if applyLike && (r.IntN(2) == 0 || (!in.Allow && r.IntN(10) < 8)) {
			in.Declared = append(in.Declared, full)
		}
	}
	if in.Mode == "reapply" {
		// the second service: for (almost) every name the fields ask for, OTHER bytes than the first one
		// serves - also for names the first service did not have (then a field that failed the first time
		// is filled the second time)
		first := map[string][]byte{}
		for _, s := range in.Svc {
			first[s.Name] = s.Value
		}
		for _, full := range order {
			if !in.Same && r.IntN(100) < 6 {
				continue // the second service does not have it
			}
			w := wants[full]
			v := c20Value(r, w.tid, w.json)
			for k := 0; k < 4 && bytes.Equal(v, first[full]); k++ {
				v = c20Value(r, w.tid, w.json)
			}
			if old, ok := first[full]; ok && bytes.Equal(v, old) {
				if w.json {
					v = append([]byte(" "), v...) // same JSON, other bytes
				} else {
					v = append(append([]byte{}, v...), "#2"...)
				}
			}
			in.Svc2 = append(in.Svc2, c20Secret{Name: full, Value: v, Text: fmt.Sprintf("%q", v)})
			if !in.Same && (r.IntN(10) < 7 || (!in.Allow2 && r.IntN(10) < 8)) {
				in.Declared2 = append(in.Declared2, full)
			}
		}
		if !in.Same && len(in.Declared2) == 0 && !in.Allow2 {
			v := []byte("dummy2")
			in.Svc2 = append(in.Svc2, c20Secret{Name: "zz/declared2", Value: v, Text: `"dummy2"`})
			in.Declared2 = append(in.Declared2, "zz/declared2")
		}
	}
	// decoys: the bare names and a leading-slash form, so that a wrongly joined name finds something else
	for _, nm := range names {
		if r.IntN(4) == 0 {
			for _, d := range []string{nm, "/" + nm, in.Prefix + nm, in.Prefix + "/" + nm, strings.TrimSuffix(in.Prefix, "/") + "/" + nm} {
				if _, ok := wants[d]; !ok && d != "" {
					wants[d] = want{}
					v := c20Value(r, 1, false)
					in.Svc = append(in.Svc, c20Secret{Name: d, Value: v, Text: fmt.Sprintf("%q", v)})
				}
			}
		}
	}
	if (in.Mode == "new" && r.IntN(3) == 0 || in.Mode == "decl" && r.IntN(4) == 0) && len(in.Svc) > 0 {
		in.Declared = append(in.Declared, in.Svc[r.IntN(len(in.Svc))].Name)
	}
	if applyLike && len(in.Declared) == 0 && !in.Allow {
		v := []byte("dummy")
		in.Svc = append(in.Svc, c20Secret{Name: "zz/declared", Value: v, Text: `"dummy"`})
		in.Declared = append(in.Declared, "zz/declared")
	}
	return in
}

func c20GenJoin(r *rand.Rand) c20Input {
	gen := func() string {
		if r.IntN(6) == 0 {
			return ""
		}
		if r.IntN(2) == 0 {
			return c20CleanName(r, 3)
		}
		parts := []string{"a", "b", ".", "..", "", "c.d", "...", "/", "x", "\n", " ", "..a", "a..", ".b", "\x00", "\xff/"}
		n := 1 + r.IntN(5)
		if r.IntN(3) == 0 {
			n += r.IntN(12) // longer ones
		}
		var sb strings.Builder
		if r.IntN(5) == 0 {
			sb.WriteByte('/')
		}
		for i := 0; i < n; i++ {
			sb.WriteString(parts[r.IntN(len(parts))])
			if r.IntN(3) != 0 {
				sb.WriteByte('/')
			}
		}
		return sb.String()
	}
	return c20Input{Kind: "join", A: gen(), B: gen()}
}

// ---- self-tests: copies of real cases with ONE observable altered

func c20SelfVariants(rec Record) []Record {
	full, ok := rec.Obs.(c20Full)
	if !ok {
		return nil
	}
	mk := func(what string, o c20Obs) Record {
		r2 := rec
		r2.Coq = full.Head + o.coq()
		r2.Obs = map[string]any{"altered": what, "observed": o}
		r2.SelfTest = true
		r2.SelfOf = rec.ID
		r2.Direct = nil
		return r2
	}
	clone := func() c20Obs {
		o := full.Obs
		o.Reqs = append([]string{}, o.Reqs...)
		o.Locs = append([]c20Loc{}, o.Locs...)
		return o
	}
	var out []Record
	o := clone()
	o.ErrClass = map[uint64]uint64{0: 2, 1: 0, 2: 0, 3: 0}[o.ErrClass]
	o.NErrs = 1
	out = append(out, mk("error class", o))
	o = clone()
	o.Reqs = append(o.Reqs, "bogus/name")
	out = append(out, mk("an extra requested name", o))
	o = clone()
	o.Intact = false
	out = append(out, mk("store no longer intact after overwriting a field", o))
	if full.Obs.ErrClass == 2 {
		o = clone()
		o.NErrs++
		out = append(out, mk("number of joined errors", o))
	}
	in := rec.Input.(c20Input)
	if in.Mode == "decl" && full.MkHead != nil && len(full.Obs.Sec2) > 0 {
		// the second Secrets() call returns the names in another order (what a Fields value sharing the
		// slice NewStore sorted would return), or a foreign name
		alt := append([]string{}, full.Obs.Sec2...)
		sort.Strings(alt)
		if slices.Equal(alt, full.Obs.Sec2) {
			slices.Reverse(alt)
		}
		if slices.Equal(alt, full.Obs.Sec2) {
			alt[0] = "zz/overwritten"
		}
		r2 := mk("names returned by the second Secrets() call", full.Obs)
		r2.Coq = full.MkHead(full.Obs.Sec1, alt) + full.Obs.coq()
		out = append(out, r2)
		alt1 := append([]string{}, alt...)
		r3 := mk("names returned by the first Secrets() call", full.Obs)
		r3.Coq = full.MkHead(alt1, full.Obs.Sec2) + full.Obs.coq()
		out = append(out, r3)
	}
	_, leaves := c20Build(in.Fields)
	for k, l := range leaves {
		if k >= len(full.Obs.Locs) || (l.F.Tag != nil && strings.Contains(*l.F.Tag, "json")) {
			continue
		}
		ol := full.Obs.Locs[k]
		if l.F.Tag == nil && ol.Unch {
			o = clone()
			o.Locs[k].Unch = false
			out = append(out, mk(fmt.Sprintf("untagged field %d.%d reported as changed", l.I, l.J), o))
			break
		}
	}
	for k, l := range leaves {
		if k >= len(full.Obs.Locs) || l.F.Tag == nil || strings.Contains(*l.F.Tag, "json") {
			continue
		}
		ol := full.Obs.Locs[k]
		if !ol.Unch && l.F.Tid <= 5 {
			o = clone()
			o.Locs[k].Vt += 1
			out = append(out, mk(fmt.Sprintf("value delivered to field %d.%d", l.I, l.J), o))
			if l.F.Tid == c20TidHandle && ol.V2 != 0 {
				o = clone()
				o.Locs[k].V2 += 1
				out = append(out, mk(fmt.Sprintf("name the handle in field %d.%d is bound to", l.I, l.J), o))
			}
			break
		}
	}
	return out
}

func c20Main(o Opts) {
	out := NewOut(o.Out)
	defer out.Close()
	if o.Replay != "" {
		for _, in := range readInputs[c20Input](o.Replay) {
			out.Emit(c20Exec(in))
		}
		return
	}
	for _, in := range readCorpus[c20Input](o.Corpus) {
		rec := c20Exec(in)
		rec.Corpus = "corpus"
		out.Emit(rec)
	}
	nrun, njoin := 1500, 400
	if o.Tier == "thorough" {
		nrun, njoin = 12000, 3000
	}
	if o.N > 0 {
		nrun = o.N
	}
	r := NewRand(o.Seed, 20)
	var selfSrc []Record
	ndecl, nre := 0, 0
	for i := 0; i < nrun; i++ {
		rec := c20Exec(c20Generate(r))
		rec.ID = out.n
		out.Emit(rec)
		if len(selfSrc) < 10 && i%37 == 5 {
			selfSrc = append(selfSrc, rec)
		} else if in := rec.Input.(c20Input); nre < 3 && in.Mode == "reapply" && in.Arg == "ptr" {
			if f, ok := rec.Obs.(c20Full); ok && f.Obs.ErrClass == 0 && f.Obs.First != nil {
				selfSrc = append(selfSrc, rec) // the variants alter what was observed after the SECOND Apply
				nre++
			}
		} else if ndecl < 3 && in.Mode == "decl" {
			if f, ok := rec.Obs.(c20Full); ok && f.Obs.ErrClass == 0 && len(f.Obs.Sec2) >= 2 {
				selfSrc = append(selfSrc, rec)
				ndecl++
			}
		}
	}
	// several struct values in one process (same type / different types; NewStore{Structs} and ParseFields+Apply)
	nmulti := 400
	if o.Tier == "thorough" {
		nmulti = 4000
	}
	if o.N > 0 {
		nmulti = o.N / 4
	}
	rm := NewRand(o.Seed, 22)
	nms := 0
	for i := 0; i < nmulti; i++ {
		rec := c20Exec(c20GenMulti(rm))
		rec.ID = out.n
		out.Emit(rec)
		if full, ok := rec.Obs.(c20MultiFull); ok && nms < 4 && i%23 == 7 && rec.Direct == nil && len(full.Obs.Locs) >= 2 {
			// self-tests: the values swapped (what a per-type cache makes of two values), and an error swallowed
			o2 := full.Obs
			o2.Locs = append([][]c20Loc{}, full.Obs.Locs...)
			o2.Locs[0], o2.Locs[len(o2.Locs)-1] = o2.Locs[len(o2.Locs)-1], o2.Locs[0]
			alt := full.Head + o2.coq()
			if nms%2 == 1 || alt == rec.Coq {
				o2 = full.Obs
				if o2.ErrClass == 0 {
					o2.ErrClass, o2.NErrs = 2, 1
				} else {
					o2.ErrClass, o2.NErrs = 0, 0
				}
				o2.Per = append([][2]uint64{}, full.Obs.Per...)
				for j := range o2.Per {
					o2.Per[j] = [2]uint64{2 - o2.Per[j][0], 1 - min(o2.Per[j][1], 1)}
				}
				alt = full.Head + o2.coq()
			}
			st := rec
			st.Coq, st.SelfTest, st.SelfOf, st.Direct = alt, true, rec.ID, nil
			out.Emit(st)
			nms++
		}
	}
	rj := NewRand(o.Seed, 21)
	for i := 0; i < njoin; i++ {
		out.Emit(c20Exec(c20GenJoin(rj)))
	}
	// path.Join(prefix, name) exhaustively over {a, b, /, ., \n}: every pair with len(prefix)+len(name) <= total
	total := 6
	if o.Tier == "thorough" {
		total = 7
	}
	for i, in := range c20JoinRows(total) {
		rec := c20Exec(in)
		rec.ID = out.n
		out.Emit(rec)
		if i == 7 || i == 40 {
			// self-test: one result of the row altered
			st := rec
			st.SelfTest, st.SelfOf = true, rec.ID
			k := strings.LastIndex(rec.Coq, ";")
			st.Coq = rec.Coq[:k+1] + "77777]"
			out.Emit(st)
		}
	}
	for _, rec := range selfSrc {
		for _, v := range c20SelfVariants(rec) {
			out.Emit(v)
		}
	}
}
