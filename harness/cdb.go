package main

import (
	"os"
	"strconv"
)

// Commands of the database-level properties that share the history runner.

func init() {
	commands["C01"] = func(o Opts) { runDBProfile(o, profC01, nil) }
	commands["C03"] = func(o Opts) { runDBProfile(o, profC03, postC03) }
	preRecords["C03"] = func(work string) []Record {
		return append(append(append(goldenRecords(work), c03OpenFaults(work)...), c03TwoDatabases(work)...), c03BigValues(work)...)
	}
	commands["C06"] = func(o Opts) { runDBProfile(o, profC06, nil) }
	preRecords["C06"] = func(work string) []Record {
		var out []Record
		n := 60
		if os.Getenv("VERIF_TIER_INTERNAL") == "thorough" {
			n = 2000
		}
		seed, _ := strconv.ParseUint(os.Getenv("VERIF_SEED_INTERNAL"), 10, 64)
		for i := 0; i < n; i++ {
			out = append(out, runConcAudit(work, i, genConc(seed, i)))
		}
		return append(out, c06AuditFile(work)...)
	}
	commands["C09db"] = func(o Opts) { runDBProfile(o, profC09, nil) }
	commands["C04db"] = func(o Opts) { runDBProfile(o, profC04, nil) }
}

func isMut(k string) bool { return k == "put" || k == "activate" || k == "delver" || k == "del" }

var profC01 = &dbProfile{
	Name: "C01", N: map[string]int{"quick": 500, "thorough": 20000}, MinLen: 6, MaxLen: 30,
	Callers: mixedCallers, AuditP: 0.06, // a failing audit sink must not let an ungranted call through
	Weights: map[string]int{"put": 22, "activate": 10, "delver": 10, "del": 6, "get": 10, "getver": 10, "info": 10, "list": 10, "getcond": 12},
	Nontrivial: func(in DBInput, obs []stepObs) bool {
		den, ok := 0, 0
		for i := range in.Ops {
			if obs[i].Res.Class == "denied" {
				den++
			} else if obs[i].Res.Class != "other" {
				ok++
			}
		}
		return den >= 1 && ok >= 1 // contains at least one denied and one allowed call
	},
}

var profC03 = &dbProfile{
	Name: "C03", N: map[string]int{"quick": 300, "thorough": 10000}, MinLen: 4, MaxLen: 30,
	Callers: superOnly, Weights: stdWeights, SaveFailP: 0.12,
	Nontrivial: func(in DBInput, obs []stepObs) bool {
		muts := 0
		for i, st := range in.Ops {
			if isMut(st.Kind) && (obs[i].Res.Class == "ok" || obs[i].Res.Class == "ver") {
				muts++
			}
		}
		return muts >= 3
	},
}

// C03 also has two runtime facts per step: opening never modifies the file, and
// the file is laid out as the documented schema version 1.
func postC03(rec *Record, in DBInput, obs []stepObs) {
	for i, o := range obs {
		if !o.OpenPure {
			rec.Direct = &DirectVerdict{OK: false, What: sprintf("step %d: db.Open of the existing file changed its bytes or inode", i)}
			return
		}
		if !o.SchemaOK {
			rec.Direct = &DirectVerdict{OK: false, What: sprintf("step %d: the file does not decode as the documented schema-version-1 layout to the contents db.Open reports (%s)", i, o.Note)}
			return
		}
	}
}

var profC06 = &dbProfile{
	Name: "C06", N: map[string]int{"quick": 400, "thorough": 15000}, MinLen: 6, MaxLen: 30,
	Callers: mixedCallers, SaveFailP: 0.08, AuditP: 0.06,
	Weights: map[string]int{"put": 22, "activate": 10, "delver": 10, "del": 6, "get": 10, "getver": 10, "info": 8, "list": 8, "getcond": 16},
	Nontrivial: func(in DBInput, obs []stepObs) bool {
		den, aud := 0, 0
		for i := range in.Ops {
			if obs[i].Res.Class == "denied" {
				den++
			}
			for _, f := range obs[i].Fx {
				if f.Kind == "audit" {
					aud++
				}
			}
		}
		return den >= 1 && aud >= 3
	},
}

var profC09 = &dbProfile{
	Name: "C09", N: map[string]int{"quick": 300, "thorough": 10000}, MinLen: 6, MaxLen: 30,
	Callers: func(r *randT) []DBCaller {
		return []DBCaller{{ID: 1, Rules: superRules()},
			{ID: 2, Rules: []c07Rule{{Actions: []string{"get"}, Secrets: [][]byte{[]byte("a"), []byte("b")}}}},
			{ID: 3, Rules: []c07Rule{{Actions: []string{"info", "put"}, Secrets: [][]byte{[]byte("*")}}}}}
	},
	SaveFailP: 0.08, // a refused save (of a first put above all) must leave "not found", not a half-made secret
	Weights:   map[string]int{"put": 20, "activate": 16, "delver": 8, "del": 5, "get": 6, "getcond": 45},
	Nontrivial: func(in DBInput, obs []stepObs) bool {
		nc, val := 0, 0
		for i, st := range in.Ops {
			if st.Kind == "getcond" {
				if obs[i].Res.Class == "notchanged" {
					nc++
				}
				if obs[i].Res.Class == "val" {
					val++
				}
			}
		}
		return nc >= 1 && val >= 1
	},
}

var profC04 = &dbProfile{
	Name: "C04", N: map[string]int{"quick": 300, "thorough": 10000}, MinLen: 6, MaxLen: 30,
	Callers: superOnly, SaveFailP: 0.35,
	Weights: map[string]int{"put": 36, "activate": 18, "delver": 18, "del": 8, "get": 6, "getver": 6, "info": 4, "list": 4},
	Nontrivial: func(in DBInput, obs []stepObs) bool {
		// reaches a rollback branch: a mutating call whose save was refused
		for i, st := range in.Ops {
			if st.SaveFail && obs[i].Res.Class == "other" {
				return true
			}
		}
		return false
	},
}
