// Package main is the verification harness: it drives the real setec code and
// records, per case, the inputs and the projected observables both as JSON (for
// humans, replay and evidence) and as a Gallina term (for the kernel).
package main

import (
	"bufio"
	"context"
	"encoding/json"
	"fmt"
	"math/rand/v2"
	"os"
	"sort"
	"strings"

	"github.com/tailscale/setec/client/setec"
)

// Record is one correspondence case.
type Record struct {
	ID         int            `json:"id"`
	Kind       string         `json:"kind"`
	Coq        string         `json:"coq"`                   // Gallina term of the property's case type
	Input      any            `json:"input"`                 // enough to re-run the case (-replay)
	Obs        any            `json:"obs,omitempty"`         // what the implementation did (projected)
	Key        string         `json:"key"`                   // canonical form, for distinctness
	Nontrivial bool           `json:"nontrivial"`            // by the property's stated rule
	Tags       []string       `json:"tags,omitempty"`        // distribution buckets
	SelfTest   bool           `json:"selftest"`              // deliberately altered observable: the kernel MUST flag it
	Direct     *DirectVerdict `json:"direct,omitempty"`      // runtime fact decided by the harness itself
	SelfOf     int            `json:"selftest_of,omitempty"` // id of the unaltered sibling
	Corpus     string         `json:"corpus,omitempty"`
}

// DirectVerdict reports a runtime fact no executable model can exhibit (panic,
// data race, deadlock, marker found on disk ...).
type DirectVerdict struct {
	OK   bool   `json:"ok"`
	What string `json:"what"`
}

type Out struct {
	w  *bufio.Writer
	f  *os.File
	n  int
	st map[string]int
}

func NewOut(path string) *Out {
	f, err := os.Create(path)
	if err != nil {
		fatal("create %s: %v", path, err)
	}
	return &Out{w: bufio.NewWriterSize(f, 1<<20), f: f, st: map[string]int{}}
}

func (o *Out) Emit(r Record) {
	r.ID = o.n
	o.n++
	bs, err := json.Marshal(r)
	if err != nil {
		fatal("marshal: %v", err)
	}
	o.w.Write(bs)
	o.w.WriteByte('\n')
}

func (o *Out) Close() {
	o.w.Flush()
	o.f.Close()
}

func fatal(format string, args ...any) {
	fmt.Fprintf(os.Stderr, "harness: "+format+"\n", args...)
	os.Exit(3)
}

// NewRand derives every random choice from one seed.
func NewRand(seed uint64, stream uint64) *rand.Rand {
	return rand.New(rand.NewPCG(seed, stream))
}

// ---- Gallina printing ----

func coqBytes(b []byte) string {
	if len(b) == 0 {
		return "[]"
	}
	var sb strings.Builder
	sb.WriteByte('[')
	for i, c := range b {
		if i > 0 {
			sb.WriteByte(';')
		}
		fmt.Fprintf(&sb, "x%02x", c)
	}
	sb.WriteByte(']')
	return sb.String()
}

func coqN(n uint64) string { return fmt.Sprintf("%d", n) }

func coqNList(ns []uint64) string {
	if len(ns) == 0 {
		return "[]"
	}
	parts := make([]string, len(ns))
	for i, n := range ns {
		parts[i] = coqN(n)
	}
	return "[" + strings.Join(parts, ";") + "]"
}

func coqList(parts []string) string {
	if len(parts) == 0 {
		return "[]"
	}
	return "[" + strings.Join(parts, ";") + "]"
}

func coqBool(b bool) string {
	if b {
		return "true"
	}
	return "false"
}

func coqOpt(s string, ok bool) string {
	if !ok {
		return "None"
	}
	return "(Some " + s + ")"
}

func sortedKeys[V any](m map[string]V) []string {
	ks := make([]string, 0, len(m))
	for k := range m {
		ks = append(ks, k)
	}
	sort.Strings(ks)
	return ks
}

// newStoreReleased calls setec.NewStore the way programs usually do - with a start-up context that is released
// as soon as NewStore has returned (`ctx, cancel := ...; defer cancel()`): the documentation says the context
// governs initialisation only, so nothing the store does later (polling, flushing, lookups, Close) may depend
// on it.
func newStoreReleased(ctx context.Context, cfg setec.StoreConfig) (*setec.Store, error) {
	ictx, cancel := context.WithCancel(ctx)
	st, err := setec.NewStore(ictx, cfg)
	cancel()
	return st, err
}
