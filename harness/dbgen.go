package main

import (
	"bytes"
	"encoding/json"
	"fmt"
	"github.com/tailscale/setec/types/api"
	"io/fs"
	"math/rand/v2"
	"path/filepath"
	"strings"
	"syscall"
)

type randT = rand.Rand

// preRecords: extra records a property emits before its histories
var preRecords = map[string]func(work string) []Record{}

func apiVer(v uint32) api.SecretVersion { return api.SecretVersion(v) }

func sprintf(f string, a ...any) string { return fmt.Sprintf(f, a...) }

func statIno(fi fs.FileInfo) uint64 {
	if st, ok := fi.Sys().(*syscall.Stat_t); ok {
		return st.Ino
	}
	return 0
}

// dbProfile steers the history generator of one property.
type dbProfile struct {
	Name       string
	N          map[string]int // tier -> number of histories
	MinLen     int
	MaxLen     int
	SaveFailP  float64
	AuditP     float64 // probability of an audit fault on a step
	Callers    func(r *rand.Rand) []DBCaller
	Weights    map[string]int
	Nontrivial func(in DBInput, obs []stepObs) bool
}

// names are opaque strings to setec: "a/../b" is NOT "b", "a/./b" and "a//b" are NOT "a/b" (a caller allowed
// "a/*" may touch "a/../b" and nothing else by that name; it never reaches "b")
var dbNames = [][]byte{[]byte("a"), []byte("b"), []byte("a/b"), []byte("p/q"), []byte(""), []byte("_internal/x"), []byte("a\nb"),
	[]byte("a/../b"), []byte("a/./b"), []byte("a//b"), []byte("p/../_internal/x"),
	// ... and " a", "a ", " " are not "a" or "" either (no call may trim or otherwise normalise a name)
	[]byte(" a"), []byte("a "), []byte(" ")}

// two long names that agree on their first 290 bytes (generated / hierarchical names have no length limit
// anywhere; a record, a grant or a request that keeps only a prefix confuses them)
var dbLongNames = [][]byte{append(bytes.Repeat([]byte("team/service/env/"), 17), []byte("/live-key")...), append(bytes.Repeat([]byte("team/service/env/"), 17), []byte("/test-key")...)}

func superOnly(r *rand.Rand) []DBCaller {
	return []DBCaller{{ID: 1, Rules: superRules()}}
}

var allActions = []string{"get", "info", "put", "activate", "delete"}

// mixedCallers: a super user plus callers with diverse rule sets
func mixedCallers(r *rand.Rand) []DBCaller {
	cs := []DBCaller{{ID: 1, Rules: superRules()}}
	// incl. near misses: "a*a" must not match "a", "a/*/b" must not match "a/b" (the literal pieces may not overlap)
	pats := [][]byte{[]byte("*"), []byte("a"), []byte("b"), []byte("a/*"), []byte("a*"), []byte("*/q"), []byte("zzz"), []byte("_internal/*"), []byte(""),
		[]byte("a*a"), []byte("a/*/b"), []byte("a*b"), []byte("*b*b"),
		// characters a pattern language might give a meaning to: here they are literal ("a.b" is not "a/b")
		[]byte("a.b"), []byte("p.q"), []byte("a|b"), []byte("[ab]"), []byte("a/.*")}
	n := 2 + r.IntN(3)
	for i := 0; i < n; i++ {
		var rules []c07Rule
		shape := r.IntN(6)
		switch shape {
		case 0: // empty rule set
		case 1: // one action subset on one pattern
			rules = []c07Rule{{Actions: randSubset(r, allActions), Secrets: [][]byte{pats[r.IntN(len(pats))]}}}
		case 2: // split: action in one rule, pattern in another
			a := allActions[r.IntN(5)]
			rules = []c07Rule{{Actions: []string{a}, Secrets: [][]byte{[]byte("zzz")}}, {Actions: []string{allActions[(r.IntN(4)+1+indexOf(allActions, a))%5]}, Secrets: [][]byte{[]byte("*")}}}
		default:
			for k := 1 + r.IntN(3); k > 0; k-- {
				var secs [][]byte
				for j := 1 + r.IntN(2); j > 0; j-- {
					secs = append(secs, pats[r.IntN(len(pats))])
				}
				rules = append(rules, c07Rule{Actions: randSubset(r, allActions), Secrets: secs})
			}
		}
		// identities: usually distinct users; sometimes the SAME user as an earlier caller but with other
		// rules (one login on two nodes, or grants that changed), sometimes a tagged node (empty user name)
		id := i + 2
		switch x := r.IntN(8); {
		case x < 2 && len(cs) > 1:
			id = cs[1+r.IntN(len(cs)-1)].ID
		case x < 4:
			id = 1000 + i
		}
		cs = append(cs, DBCaller{ID: id, Rules: rules})
	}
	return cs
}

func indexOf(xs []string, x string) int {
	for i, y := range xs {
		if y == x {
			return i
		}
	}
	return 0
}

func randSubset(r *rand.Rand, xs []string) []string {
	var out []string
	for _, x := range xs {
		if r.IntN(2) == 0 {
			out = append(out, x)
		}
	}
	// sometimes an action string setec does not know (a typo, another product's verb): it grants nothing
	if r.IntN(6) == 0 {
		out = append(out, []string{"list", "read", "Get", "", "get "}[r.IntN(5)])
	}
	return out
}

func pickWeighted(r *rand.Rand, w map[string]int) string {
	keys := sortedKeys(w)
	tot := 0
	for _, k := range keys {
		tot += w[k]
	}
	x := r.IntN(tot)
	for _, k := range keys {
		if x < w[k] {
			return k
		}
		x -= w[k]
	}
	return keys[0]
}

// genStep picks the next step adaptively from the last observed state.
func genStep(r *rand.Rand, p *dbProfile, callers []DBCaller, last []secDump, deleted map[string][]uint32) DBStep {
	st := DBStep{Kind: pickWeighted(r, p.Weights)}
	st.Caller = 0
	if len(callers) > 1 && r.IntN(3) != 0 {
		st.Caller = r.IntN(len(callers))
	}
	// names: mostly the common ones so that histories interact
	switch x := r.IntN(20); {
	case x < 8:
		st.Name = dbNames[0]
	case x < 13:
		st.Name = dbNames[1]
	case x < 15:
		st.Name = dbNames[2]
	default:
		st.Name = dbNames[r.IntN(len(dbNames))]
	}
	if (p.Name == "C06" || p.Name == "C01" || p.Name == "C02") && r.IntN(60) == 0 {
		st.Name = dbLongNames[r.IntN(2)]
	}
	var cur *secDump
	for i := range last {
		if bytes.Equal(last[i].Name, st.Name) {
			cur = &last[i]
		}
	}
	// version arguments biased to the interesting ones
	var maxv, act uint32
	if cur != nil {
		act = uint32(cur.Active)
		for _, v := range cur.Vers {
			if uint32(v.Ver) > maxv {
				maxv = uint32(v.Ver)
			}
		}
		if uint32(cur.Latest) > maxv {
			maxv = uint32(cur.Latest)
		}
	}
	switch r.IntN(8) {
	case 0:
		st.Ver = 0
	case 1:
		st.Ver = act
	case 2:
		st.Ver = maxv
	case 3:
		st.Ver = maxv + 1
	case 4:
		if ds := deleted[string(st.Name)]; len(ds) > 0 {
			st.Ver = ds[r.IntN(len(ds))]
		} else {
			st.Ver = 1
		}
	default:
		if cur != nil && len(cur.Vers) > 0 {
			st.Ver = uint32(cur.Vers[r.IntN(len(cur.Vers))].Ver)
		} else {
			st.Ver = uint32(1 + r.IntN(3))
		}
	}
	st.Val = r.IntN(4) // small pool incl. the empty value: dedupe and re-put are frequent
	if r.IntN(25) == 0 {
		st.Val = 4 + r.IntN(maxValueToken-3)
	}
	mut := st.Kind == "put" || st.Kind == "activate" || st.Kind == "delver" || st.Kind == "del"
	if mut && r.Float64() < p.SaveFailP {
		st.SaveFail = true
	}
	if r.Float64() < p.AuditP {
		if r.IntN(4) == 0 {
			st.Audit = "write"
		} else {
			st.Audit = "sync"
		}
	}
	st.NameQ = fmt.Sprintf("%q", st.Name)
	return st
}

// runDBHistory executes a fixed or generated history and returns the record.
func runDBHistory(work string, idx int, p *dbProfile, in DBInput, r *rand.Rand, length int) Record {
	env, err := newDBEnv(filepath.Join(work, fmt.Sprintf("db%d", idx%64)))
	if err != nil {
		return Record{Kind: "history", Input: in, Key: fmt.Sprintf("create-failed-%d", idx),
			Direct: &DirectVerdict{OK: false, What: "cannot create a database: " + err.Error()}}
	}
	defer env.close()
	env.probeCounters = p.Name == "C03"
	var obs []stepObs
	deleted := map[string][]uint32{}
	var last []secDump
	step := func(st DBStep) {
		o := env.exec(in.Callers, st)
		obs = append(obs, o)
		if st.Kind == "delver" && o.Res.Class == "ok" {
			deleted[string(st.Name)] = append(deleted[string(st.Name)], st.Ver)
		}
		last = o.Disk
	}
	if r == nil {
		for _, st := range in.Ops {
			step(st)
		}
	} else {
		forced := forcedSequences(r, p)
		for (len(in.Ops) < length || len(forced) > 0) && !env.hung {
			var st DBStep
			if len(forced) > 0 {
				st, forced = forced[0], forced[1:]
			} else {
				st = genStep(r, p, in.Callers, last, deleted)
				if p.Name == "C03" && r.IntN(6) == 0 || p.Name == "C02" && r.IntN(12) == 0 {
					st.Restart = true
				}
				for _, o := range obs { // a restart also replaces a broken audit writer, which the sequential model does not follow
					for _, f := range o.Fx {
						if f.Kind == "auditfail" {
							st.Restart = false
						}
					}
				}
				if p.Name == "C01" && st.Caller != 0 && st.Kind != "list" && r.IntN(5) == 0 {
					st.Overlap = true
				}
				// the caller that has just listed acts again: what it may do must not depend on having listed
				if n := len(in.Ops); n > 0 && in.Ops[n-1].Kind == "list" && in.Ops[n-1].Caller != 0 && st.Kind != "list" && r.IntN(2) == 0 {
					st.Caller = in.Ops[n-1].Caller
				}
				// reads by different callers back to back, with no write in between (same name, other caller)
				if n := len(in.Ops); n > 0 && len(in.Callers) > 1 && r.IntN(4) == 0 {
					if k := in.Ops[n-1].Kind; k == "list" || k == "info" || k == "get" || k == "getver" {
						st = in.Ops[n-1]
						st.Caller = r.IntN(len(in.Callers))
					}
				}
			}
			in.Ops = append(in.Ops, st)
			step(st)
		}
	}
	kb, _ := json.Marshal(in.Ops)
	cb, _ := json.Marshal(in.Callers)
	rec := Record{Kind: "history", Input: in, Obs: obs, Key: string(cb) + string(kb),
		Coq: coqCase(in, obs), Nontrivial: p.Nontrivial == nil || p.Nontrivial(in, obs)}
	rec.Tags = historyTags(in, obs)
	if env.hung {
		hungHistories++
		for i, o := range obs {
			if strings.Contains(o.Note, "hang: the handle did not answer") {
				rec.Direct = &DirectVerdict{OK: false, What: sprintf("step %d (%s %s): after this call returned, the database handle no longer answers (a list call did not return within %s) - a lock was kept", i, in.Ops[i].Kind, in.Ops[i].NameQ, dbCallTimeout)}
				break
			}
			if strings.HasPrefix(o.Res.Err, "HANG") {
				rec.Direct = &DirectVerdict{OK: false, What: sprintf("step %d (%s %s): the call did not return within %s - the database handle is deadlocked", i, in.Ops[i].Kind, in.Ops[i].NameQ, dbCallTimeout)}
				break
			}
		}
	}
	return rec
}

// forcedSequences: the sub-sequences the properties single out
func forcedSequences(r *rand.Rand, p *dbProfile) []DBStep {
	n := dbNames[r.IntN(2)]
	q := fmt.Sprintf("%q", n)
	mk := func(kind string, ver uint32, val int) DBStep {
		return DBStep{Kind: kind, Name: n, NameQ: q, Ver: ver, Val: val}
	}
	if (p.Name == "C03" || p.Name == "C02") && r.IntN(8) == 0 {
		// a database that is (again) empty when the server restarts: brand new, or everything deleted
		rs := mk("put", 0, 1)
		rs.Restart = true
		if r.IntN(2) == 0 {
			return []DBStep{rs, mk("get", 0, 0), mk("put", 0, 2)}
		}
		return []DBStep{mk("put", 0, 1), mk("del", 0, 0), rs, mk("info", 0, 0), mk("del", 0, 0), mk("put", 0, 2)}
	}
	if (p.Name == "C02" || p.Name == "C06" || p.Name == "C03") && r.IntN(40) == 0 {
		// a long rotation history: nothing but delete calls ever removes a version
		var seq []DBStep
		for k := 1; k <= 34; k++ {
			seq = append(seq, mk("put", 0, 1+k%9))
			if k > 1 {
				seq = append(seq, mk("activate", uint32(k), 0))
			}
		}
		return append(seq, mk("getver", 1, 0), mk("getver", 2, 0), mk("info", 0, 0))
	}
	switch r.IntN(8) {
	case 0: // delete the newest version, then put again (empty value and the deleted value)
		return []DBStep{mk("put", 0, 1), mk("put", 0, 2), mk("delver", 2, 0), mk("put", 0, []int{0, 2, 3}[r.IntN(3)]), mk("getver", 2, 0), mk("getver", 3, 0)}
	case 1: // delete then recreate
		return []DBStep{mk("put", 0, 1), mk("put", 0, 2), mk("del", 0, 0), mk("put", 0, 3), mk("info", 0, 0)}
	case 2: // activate forth and back
		return []DBStep{mk("put", 0, 1), mk("put", 0, 2), mk("activate", 2, 0), mk("get", 0, 0), mk("activate", 1, 0), mk("get", 0, 0), mk("delver", 2, 0)}
	case 3: // re-put the same bytes
		return []DBStep{mk("put", 0, 1), mk("put", 0, 1), mk("put", 0, 2), mk("put", 0, 2), mk("put", 0, 1)}
	}
	return nil
}

func historyTags(in DBInput, obs []stepObs) []string {
	seen := map[string]bool{}
	for i, st := range in.Ops {
		seen["op:"+st.Kind] = true
		seen["res:"+obs[i].Res.Class] = true
		if st.SaveFail {
			seen["fault:save"] = true
		}
		if st.Audit != "" {
			seen["fault:audit-"+st.Audit] = true
		}
	}
	seen[fmt.Sprintf("len:%d", (len(in.Ops)/10)*10)] = true
	return sortedKeys(seen)
}

func runDBProfile(o Opts, p *dbProfile, post func(rec *Record, in DBInput, obs []stepObs)) {
	out := NewOut(o.Out)
	defer out.Close()
	work := o.Work
	if work == "" {
		work = "."
	}
	emit := func(rec Record) {
		if post != nil {
			if obs, ok := rec.Obs.([]stepObs); ok {
				post(&rec, rec.Input.(DBInput), obs)
			}
		}
		out.Emit(rec)
	}
	idx := 0
	if pre := preRecords[p.Name]; pre != nil && o.Replay == "" {
		for _, rec := range pre(work) {
			out.Emit(rec)
		}
	}
	if o.Replay != "" {
		for _, in := range readInputs[DBInput](o.Replay) {
			emit(runDBHistory(work, idx, p, in, nil, 0))
			idx++
		}
		return
	}
	for _, in := range readCorpus[DBInput](o.Corpus) {
		rec := runDBHistory(work, idx, p, in, nil, 0)
		rec.Corpus = "corpus"
		emit(rec)
		idx++
	}
	n := p.N[o.Tier]
	if o.N > 0 {
		n = o.N
	}
	var selfSrc []Record
	for i := 0; i < n; i++ {
		if hungHistories >= 5 {
			break // every further history would cost its time-outs and say the same
		}
		r := NewRand(o.Seed, uint64(1000+i))
		length := p.MinLen + r.IntN(p.MaxLen-p.MinLen+1)
		in := DBInput{Profile: p.Name, Callers: p.Callers(r)}
		rec := runDBHistory(work, idx, p, in, r, length)
		rec.ID = out.n
		emit(rec)
		idx++
		if len(selfSrc) < 4 && i%7 == 3 {
			selfSrc = append(selfSrc, rec)
		}
	}
	// self-test: alter one observable the property looks at; the kernel must flag it
	for _, rec := range selfSrc {
		in := rec.Input.(DBInput)
		obs := append([]stepObs(nil), rec.Obs.([]stepObs)...)
		if !alterForSelfTest(p.Name, in, obs) {
			continue
		}
		rec.Coq = coqCase(in, obs)
		rec.SelfTest = true
		rec.SelfOf = rec.ID
		rec.Obs = nil
		out.Emit(rec)
	}
}

// alterForSelfTest changes, in a copy of the observations, something the named
// property's comparison must notice.
func alterForSelfTest(prop string, in DBInput, obs []stepObs) bool {
	for i := len(obs) - 1; i >= 0; i-- {
		o := obs[i]
		switch prop {
		case "C02", "C04", "C09":
			if o.Res.Class == "val" && (prop != "C09" || in.Ops[i].Kind == "getcond" || in.Ops[i].Kind == "get") {
				o.Res.Ver++
				obs[i] = o
				return true
			}
			if prop != "C09" && o.Res.Class == "ver" {
				o.Res.Ver++
				obs[i] = o
				return true
			}
		case "C03":
			if len(o.Disk) > 0 {
				d := append([]secDump(nil), o.Disk...)
				d[0].Latest++
				o.Disk = d
				obs[i] = o
				return true
			}
		case "C01":
			if o.Res.Class == "denied" {
				o.Res = resObs{Class: "notfound"}
				obs[i] = o
				return true
			}
		case "C06":
			if len(o.Fx) > 0 && o.Fx[0].Kind == "audit" {
				fx := append([]fxObs(nil), o.Fx...)
				rec := *fx[0].Rec
				rec.Authorized = !rec.Authorized
				fx[0].Rec = &rec
				o.Fx = fx
				obs[i] = o
				return true
			}
		}
	}
	return false
}
