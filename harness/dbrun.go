package main

// Execution of operation histories on the real db.DB, recording for every step
// the projected observables that Corr/Run_DB.v compares with the model.

import (
	"bytes"
	"crypto/sha256"
	"encoding/json"
	"errors"
	"fmt"
	"io"
	"net/netip"
	"os"
	"path/filepath"
	"slices"
	"sort"
	"strconv"
	"strings"
	"sync"
	"time"

	"github.com/tailscale/setec/audit"
	"github.com/tailscale/setec/db"
	"github.com/tailscale/setec/types/api"
	"github.com/tink-crypto/tink-go/v2/aead"
	"github.com/tink-crypto/tink-go/v2/keyset"
	"github.com/tink-crypto/tink-go/v2/tink"
)

// ---- inputs ----

type DBCaller struct {
	ID    int       `json:"id"` // principal id (>= 1)
	Rules []c07Rule `json:"rules"`
}

type DBStep struct {
	Caller   int    `json:"caller"` // index into callers
	Kind     string `json:"kind"`   // list info get getcond getver put activate delver del
	Name     []byte `json:"name,omitempty"`
	NameQ    string `json:"name_q,omitempty"`
	Ver      uint32 `json:"ver,omitempty"`
	Val      int    `json:"val,omitempty"`       // value token
	SaveFail bool   `json:"save_fail,omitempty"` // the file system refuses the save
	Restart  bool   `json:"restart,omitempty"`   // the server is restarted (file reopened, old handle dropped) before this call (C03)
	Overlap  bool   `json:"overlap,omitempty"`   // an authorized read of the same secret runs in the middle of this call (C01)
	Audit    string `json:"audit,omitempty"`     // "" | "write" | "sync": what the audit sink does with the next record
}

type DBInput struct {
	Profile string     `json:"profile"`
	Callers []DBCaller `json:"callers"`
	Ops     []DBStep   `json:"ops"`
}

// ---- values as tokens ----

const corruptToken = 999999

func valueBytes(id int) []byte {
	if id == 0 {
		return []byte{}
	}
	h := sha256.Sum256([]byte(fmt.Sprintf("value-%d", id)))
	n := 1 + (id*7)%29
	if id%5 == 4 {
		n = 300 + id
	}
	out := make([]byte, 0, n)
	for len(out) < n {
		out = append(out, h[:]...)
	}
	out = out[:n]
	if id%3 == 1 {
		out[0] = 0 // NUL, invalid UTF-8 follows
	}
	switch id { // values that end in (or are nothing but) line ends: nobody may trim them
	case 13:
		out = append(out, '\n')
	case 14:
		out = append(out, '\r', '\n')
	case 15:
		out = []byte("\n")
	}
	return out
}

// scribble overwrites a buffer in place (the values the harness uses never look like this).
func scribble(b []byte) {
	for i := range b {
		b[i] = 0xA5
	}
}

func valueToken(b []byte, max int) uint64 {
	for id := 0; id <= max; id++ {
		if bytes.Equal(b, valueBytes(id)) {
			return uint64(id)
		}
	}
	return corruptToken
}

const maxValueToken = 15

// ---- observation ----

type verVal struct {
	Ver uint64 `json:"v"`
	Val uint64 `json:"b"`
}

type secDump struct {
	Name   []byte   `json:"name"`
	Vers   []verVal `json:"vers"`
	Active uint64   `json:"active"`
	Latest uint64   `json:"latest,omitempty"`
}

type auditRec struct {
	Principal  int    `json:"principal"`
	Action     string `json:"action"`
	Secret     []byte `json:"secret"`
	Version    uint64 `json:"version"`
	Authorized bool   `json:"authorized"`
}

type fxObs struct {
	Kind string    `json:"kind"` // audit | auditfail | syncfail | save
	Rec  *auditRec `json:"rec,omitempty"`
}

type resObs struct {
	Class string    `json:"class"` // list info val ver ok notchanged denied notfound other
	Ver   uint64    `json:"ver,omitempty"`
	Val   uint64    `json:"val,omitempty"`
	Vers  []uint64  `json:"vers,omitempty"`
	Act   uint64    `json:"act,omitempty"`
	List  []secDump `json:"list,omitempty"`
	Err   string    `json:"err,omitempty"` // diagnostics only
}

type stepObs struct {
	Res      resObs    `json:"res"`
	Fx       []fxObs   `json:"fx"`
	LiveKind string    `json:"live_kind"` // same | dump | na
	Live     []secDump `json:"live,omitempty"`
	Disk     []secDump `json:"disk"`
	Gen      uint64    `json:"gen"`
	SchemaOK bool      `json:"schema_ok"` // harness's own decoding of the documented layout agrees with db.Open
	OpenPure bool      `json:"open_pure"` // reopening left the file bytes and inode untouched
	KEKCalls int       `json:"kek_calls"` // key-encryption-key uses during this step (live handle only)
	Note     string    `json:"note,omitempty"`
}

// recording audit sink
type auditSink struct {
	mu       sync.Mutex
	quiet    bool   // dump mode: accept and discard
	failNext string // "" | "write" | "sync"
	fx       []fxObs
	dbPath   string
	lastHash [32]byte
	buf      []byte
	dead     bool
	torn     int           // quiet mode: writes that were not whole records
	delay    time.Duration // quiet mode: sleep this long in every Write
	hook     func()        // if set: called once, outside the sink's own lock, when the next record arrives
	slow     time.Duration // recording mode: sleep this long before accepting a record (a stalled log device)
	wantHost string        // if set: a record whose principal names another hostname identifies nobody (principal -1)
	wantIP   string        // likewise for the address
}

func fileHash(path string) [32]byte {
	bs, err := os.ReadFile(path)
	if err != nil {
		return [32]byte{}
	}
	return sha256.Sum256(bs)
}

func (s *auditSink) noteSave() {
	h := fileHash(s.dbPath)
	if h != s.lastHash {
		s.fx = append(s.fx, fxObs{Kind: "save"})
		s.lastHash = h
	}
}

func (s *auditSink) Write(p []byte) (int, error) {
	s.mu.Lock()
	if h := s.hook; h != nil && !s.quiet {
		s.hook = nil
		s.mu.Unlock()
		h()
		s.mu.Lock()
	}
	defer s.mu.Unlock()
	if s.quiet {
		if s.delay > 0 { // a slow log device: widens every window around the audit record (lock released, yielding)
			d := s.delay
			s.mu.Unlock()
			time.Sleep(d)
			s.mu.Lock()
		}
		// still READ what is handed over (so that the race detector sees a buffer that is being
		// rewritten by another request) and note anything that is not one or more complete records
		if len(p) == 0 || p[len(p)-1] != '\n' {
			s.torn++
		} else {
			for _, line := range bytes.Split(p[:len(p)-1], []byte{'\n'}) {
				if !json.Valid(line) {
					s.torn++
				}
			}
		}
		return len(p), nil
	}
	if s.slow > 0 {
		d := s.slow
		s.mu.Unlock()
		time.Sleep(d)
		s.mu.Lock()
	}
	s.noteSave()
	if s.failNext == "write" {
		s.failNext = ""
		s.fx = append(s.fx, fxObs{Kind: "auditfail"})
		return 0, errors.New("injected audit write failure")
	}
	s.buf = append(s.buf, p...)
	for {
		i := bytes.IndexByte(s.buf, '\n')
		if i < 0 {
			break
		}
		line := s.buf[:i]
		s.buf = s.buf[i+1:]
		var e struct {
			Principal struct {
				User     string   `json:"user"`
				Tags     []string `json:"tags"`
				Hostname string   `json:"hostname"`
				IP       string   `json:"ip"`
			} `json:"principal"`
			Action        string `json:"action"`
			Authorized    bool   `json:"authorized"`
			Secret        string `json:"secret"`
			SecretVersion uint64 `json:"secretVersion"`
		}
		rec := &auditRec{Principal: -1}
		if err := json.Unmarshal(line, &e); err == nil {
			id, _ := strconv.Atoi(strings.TrimPrefix(e.Principal.User, "user"))
			if len(e.Principal.Tags) > 0 { // a tagged node: id of the tag set
				id, _ = strconv.Atoi(strings.TrimPrefix(e.Principal.Tags[0], "tag:t"))
				id += 1000
			}
			if (s.wantHost != "" && e.Principal.Hostname != s.wantHost) || (s.wantIP != "" && e.Principal.IP != s.wantIP) {
				id = -1 // the record does not say which machine / address the call came from
			}
			rec = &auditRec{Principal: id, Action: e.Action, Secret: []byte(e.Secret), Version: e.SecretVersion, Authorized: e.Authorized}
		}
		s.fx = append(s.fx, fxObs{Kind: "audit", Rec: rec})
	}
	return len(p), nil
}

func (s *auditSink) Sync() error {
	s.mu.Lock()
	defer s.mu.Unlock()
	if s.quiet {
		return nil
	}
	if s.failNext == "sync" {
		s.failNext = ""
		s.fx = append(s.fx, fxObs{Kind: "syncfail"})
		return errors.New("injected audit sync failure")
	}
	return nil
}

// counting wrapper around the key-encryption key
type countingAEAD struct {
	inner tink.AEAD
	mu    sync.Mutex
	n     int
}

func (c *countingAEAD) Encrypt(pt, ad []byte) ([]byte, error) {
	c.mu.Lock()
	c.n++
	c.mu.Unlock()
	return c.inner.Encrypt(pt, ad)
}
func (c *countingAEAD) Decrypt(ct, ad []byte) ([]byte, error) {
	c.mu.Lock()
	c.n++
	c.mu.Unlock()
	return c.inner.Decrypt(ct, ad)
}
func (c *countingAEAD) count() int { c.mu.Lock(); defer c.mu.Unlock(); return c.n }

func newKEK() tink.AEAD {
	h, err := keyset.NewHandle(aead.AES256GCMKeyTemplate())
	if err != nil {
		fatal("kek: %v", err)
	}
	a, err := aead.New(h)
	if err != nil {
		fatal("kek: %v", err)
	}
	return a
}

func superRules() []c07Rule {
	return []c07Rule{{Actions: []string{"get", "info", "put", "activate", "delete"}, Secrets: [][]byte{[]byte("*")}}}
}

func mkCaller(c DBCaller) db.Caller {
	if c.ID >= 1000 { // a tagged node: no user name, identified by its tag set
		return db.Caller{
			Principal:   audit.Principal{Tags: []string{fmt.Sprintf("tag:t%d", c.ID-1000)}, IP: netip.MustParseAddr("100.64.0.1"), Hostname: "h"},
			Permissions: toACL(c.Rules),
		}
	}
	return db.Caller{
		Principal:   audit.Principal{User: fmt.Sprintf("user%d", c.ID), IP: netip.MustParseAddr("100.64.0.1"), Hostname: "h"},
		Permissions: toACL(c.Rules),
	}
}

// dbEnv is one live database under observation.
type dbEnv struct {
	dir           string // parent of the state directory
	state         string // directory holding the database file
	path          string
	kek           *countingAEAD
	probeCounters bool // C03: probe the next-version counters through a restarted handle after every step
	sink          *auditSink
	d             *db.DB
	super         db.Caller
	callerObjs    map[int]db.Caller
	hung          bool // a call on the live handle never returned
}

func newDBEnv(dir string) (*dbEnv, error) {
	os.RemoveAll(dir)
	state := filepath.Join(dir, "state")
	if err := os.MkdirAll(state, 0700); err != nil {
		return nil, err
	}
	e := &dbEnv{dir: dir, state: state, path: filepath.Join(state, "db.json"), kek: &countingAEAD{inner: newKEK()}}
	e.sink = &auditSink{dbPath: e.path}
	d, err := db.Open(e.path, e.kek, audit.New(e.sink))
	if err != nil {
		return nil, err
	}
	e.d = d
	e.sink.lastHash = fileHash(e.path)
	e.super = mkCaller(DBCaller{ID: 0, Rules: superRules()})
	return e, nil
}

func (e *dbEnv) close() { os.RemoveAll(e.dir) }

func classify(err error) string {
	switch {
	case err == nil:
		return ""
	case errors.Is(err, db.ErrAccessDenied):
		return "denied"
	case errors.Is(err, db.ErrNotFound):
		return "notfound"
	case errors.Is(err, api.ErrValueNotChanged):
		return "notchanged"
	}
	return "other"
}

func infoToDump(in *api.SecretInfo) secDump {
	d := secDump{Name: []byte(in.Name), Active: uint64(in.ActiveVersion)}
	for _, v := range in.Versions {
		d.Vers = append(d.Vers, verVal{Ver: uint64(v)})
	}
	return d
}

// dumpVia lists everything through the API of handle d as the superuser.
func dumpVia(d *db.DB, super db.Caller) ([]secDump, error) {
	infos, err := d.List(super)
	if err != nil {
		return nil, err
	}
	var out []secDump
	for _, in := range infos {
		sd := secDump{Name: []byte(in.Name), Active: uint64(in.ActiveVersion)}
		for _, v := range in.Versions {
			sv, err := d.GetVersion(super, in.Name, v)
			if err != nil {
				return nil, fmt.Errorf("GetVersion(%q,%d): %w", in.Name, v, err)
			}
			sd.Vers = append(sd.Vers, verVal{Ver: uint64(v), Val: valueToken(sv.Value, maxValueToken)})
		}
		sort.Slice(sd.Vers, func(i, j int) bool { return sd.Vers[i].Ver < sd.Vers[j].Ver })
		out = append(out, sd)
	}
	sort.Slice(out, func(i, j int) bool { return bytes.Compare(out[i].Name, out[j].Name) < 0 })
	return out, nil
}

// decodeFile opens the database file with the harness's own reading of the
// documented schema-version-1 layout (wrapper Version/DEK/DB, persisted
// Secrets/Versions/ActiveVersion/LatestVersion).
func decodeFile(path string, kek tink.AEAD) ([]secDump, error) {
	bs, err := os.ReadFile(path)
	if err != nil {
		return nil, err
	}
	var w struct {
		Version json.Number
		DEK     []byte
		DB      []byte
	}
	if err := json.Unmarshal(bs, &w); err != nil {
		return nil, fmt.Errorf("wrapper: %w", err)
	}
	if w.Version.String() != "1" {
		return nil, fmt.Errorf("wrapper version %q", w.Version)
	}
	h, err := keyset.ReadWithAssociatedData(keyset.NewBinaryReader(bytes.NewReader(w.DEK)), kek, []byte("setec DEK v1"))
	if err != nil {
		return nil, fmt.Errorf("unwrap DEK: %w", err)
	}
	c, err := aead.New(h)
	if err != nil {
		return nil, err
	}
	clear, err := c.Decrypt(w.DB, []byte("setec database v1"))
	if err != nil {
		return nil, fmt.Errorf("decrypt DB: %w", err)
	}
	var p struct {
		Secrets map[string]struct {
			Versions      map[string][]byte
			ActiveVersion json.Number
			LatestVersion json.Number
		}
	}
	if err := json.Unmarshal(clear, &p); err != nil {
		return nil, fmt.Errorf("persist: %w", err)
	}
	var out []secDump
	for name, s := range p.Secrets {
		a, _ := strconv.ParseUint(s.ActiveVersion.String(), 10, 64)
		l, _ := strconv.ParseUint(s.LatestVersion.String(), 10, 64)
		sd := secDump{Name: []byte(name), Active: a, Latest: l}
		for k, v := range s.Versions {
			n, err := strconv.ParseUint(k, 10, 64)
			if err != nil {
				return nil, fmt.Errorf("version key %q", k)
			}
			sd.Vers = append(sd.Vers, verVal{Ver: n, Val: valueToken(v, maxValueToken)})
		}
		sort.Slice(sd.Vers, func(i, j int) bool { return sd.Vers[i].Ver < sd.Vers[j].Ver })
		out = append(out, sd)
	}
	sort.Slice(out, func(i, j int) bool { return bytes.Compare(out[i].Name, out[j].Name) < 0 })
	return out, nil
}

func sameDump(a, b []secDump, withLatest bool) bool {
	if len(a) != len(b) {
		return false
	}
	for i := range a {
		if !bytes.Equal(a[i].Name, b[i].Name) || a[i].Active != b[i].Active || len(a[i].Vers) != len(b[i].Vers) {
			return false
		}
		if withLatest && a[i].Latest != b[i].Latest {
			return false
		}
		for j := range a[i].Vers {
			if a[i].Vers[j] != b[i].Vers[j] {
				return false
			}
		}
	}
	return true
}

func inodeOf(path string) uint64 {
	fi, err := os.Stat(path)
	if err != nil {
		return 0
	}
	return statIno(fi)
}

// observeState fills the state part of a step observation.
func (e *dbEnv) observeState(o *stepObs) {
	// 1. the state the live handle serves (through its API, audit sink muted)
	if e.sink.dead {
		o.LiveKind = "na"
	} else {
		e.sink.mu.Lock()
		e.sink.quiet = true
		e.sink.mu.Unlock()
		var live []secDump
		var err error
		dumped := make(chan struct{})
		go func() {
			defer close(dumped)
			live, err = dumpVia(e.d, e.super)
		}()
		select {
		case <-dumped:
		case <-time.After(dbCallTimeout):
			// the handle no longer answers (a lock the previous call kept): nothing more can be asked of it
			e.hung = true
			o.Note += "hang: the handle did not answer a list call within " + dbCallTimeout.String() + " after this call; "
			live, err = nil, errors.New("the handle did not answer (deadlock)")
		}
		e.sink.mu.Lock()
		e.sink.quiet = false
		e.sink.mu.Unlock()
		if err != nil {
			o.LiveKind = "dump"
			o.Note += "live dump failed: " + err.Error() + "; "
			o.Live = []secDump{{Name: []byte("<<dump failed>>")}}
		} else {
			o.LiveKind = "dump"
			o.Live = live
		}
	}
	if !e.hung {
		o.Gen = e.d.WriteGen()
	}
	// 2. the file, reopened with the same key in a second handle; opening must not write
	h0, i0 := fileHash(e.path), inodeOf(e.path)
	d2, err := db.Open(e.path, e.kek.inner, audit.New(io.Discard))
	var viaOpen []secDump
	if err != nil {
		o.Note += "reopen failed: " + err.Error() + "; "
		viaOpen = []secDump{{Name: []byte("<<reopen failed>>")}}
	} else {
		viaOpen, err = dumpVia(d2, e.super)
		if err != nil {
			o.Note += "reopen dump failed: " + err.Error() + "; "
			viaOpen = []secDump{{Name: []byte("<<reopen dump failed>>")}}
		}
	}
	h1, i1 := fileHash(e.path), inodeOf(e.path)
	o.OpenPure = h0 == h1 && i0 == i1
	// 3. counters, from the documented layout
	dec, derr := decodeFile(e.path, e.kek.inner)
	if derr != nil {
		o.Note += "schema decode failed: " + derr.Error() + "; "
		o.SchemaOK = false
		o.Disk = viaOpen
	} else {
		o.SchemaOK = sameDump(dec, viaOpen, false)
		// names, versions, bytes, active as db.Open sees them; counters from the layout
		o.Disk = viaOpen
		if o.SchemaOK {
			o.Disk = dec
		}
	}
	// 4. counters as a restarted server USES them: on a scratch copy of the file, opened with the same
	// key, a put of a never-seen value must get LatestVersion+1 for every name (a counter lost or
	// "repaired" while loading shows only here)
	if derr == nil && o.SchemaOK && e.probeCounters {
		cp := e.path + ".probe"
		if bs, rerr := os.ReadFile(e.path); rerr == nil && os.WriteFile(cp, bs, 0600) == nil {
			if d3, oerr := db.Open(cp, e.kek.inner, audit.New(io.Discard)); oerr == nil {
				for i := range o.Disk {
					if len(o.Disk[i].Name) == 0 {
						continue
					}
					v, perr := d3.Put(e.super, string(o.Disk[i].Name), []byte("verif-counter-probe-value"))
					if perr == nil && uint64(v) != o.Disk[i].Latest+1 {
						o.Note += sprintf("restarted put on %q got version %d, file says LatestVersion %d; ", o.Disk[i].Name, v, o.Disk[i].Latest)
						o.Disk[i].Latest = uint64(v) - 1
					}
				}
			}
			os.Remove(cp)
		}
	}
	if o.LiveKind == "dump" && sameDump(o.Live, o.Disk, false) {
		o.LiveKind = "same"
		o.Live = nil
	}
}

// exec runs one step on the live database.
const dbCallTimeout = 12 * time.Second // database calls take milliseconds (an fsync on a busy disk can take seconds); a call still out after this is deadlocked

var hungHistories int // histories of this run that ended in a deadlocked handle

func (e *dbEnv) exec(callers []DBCaller, st DBStep) stepObs {
	var o stepObs
	if e.hung {
		o.Res = resObs{Class: "other", Err: "skipped: an earlier call never returned"}
		o.LiveKind = "na"
		return o
	}
	c := mkCaller(DBCaller{ID: -1})
	if st.Caller >= 0 && st.Caller < len(callers) {
		// one db.Caller value per caller for the whole history (an embedding program keeps its identities):
		// a call that rewrites the rules it was shown changes what that caller may do afterwards
		if e.callerObjs == nil {
			e.callerObjs = map[int]db.Caller{}
		}
		co, ok := e.callerObjs[st.Caller]
		if !ok {
			co = mkCaller(callers[st.Caller])
			e.callerObjs[st.Caller] = co
		}
		c = co
	}
	e.sink.mu.Lock()
	e.sink.fx = nil
	e.sink.failNext = st.Audit
	e.sink.lastHash = fileHash(e.path)
	e.sink.wantHost, e.sink.wantIP = "h", "100.64.0.1" // what mkCaller puts into every principal
	e.sink.mu.Unlock()
	if st.Restart {
		// the server restarts before this call: the old handle is dropped and the file opened again with the
		// same key; from here on the RESTARTED handle serves and saves (acknowledged state must survive this,
		// and so must the handle's ability to write files a later restart can open)
		if d2, rerr := db.Open(e.path, e.kek, audit.New(e.sink)); rerr == nil {
			e.d = d2
		} else {
			o.Note += "restart failed: " + rerr.Error() + "; "
		}
	}
	hidden := e.state + ".hidden"
	if st.SaveFail {
		if err := os.Rename(e.state, hidden); err != nil {
			fatal("hide state dir: %v", err)
		}
		e.sink.mu.Lock()
		e.sink.dbPath = filepath.Join(hidden, "db.json")
		e.sink.mu.Unlock()
	}
	kek0 := e.kek.count()
	name := string(st.Name)
	var err error
	var keptList []*api.SecretInfo // what a list call handed out, looked at again after somebody else has listed
	var keptInfo *api.SecretInfo
	if st.Overlap && !st.SaveFail && st.Audit == "" {
		// in the middle of this call (when its first audit record reaches the sink) a fully authorized caller
		// reads the same secret on another goroutine; this call's own access decision must not notice
		done := make(chan struct{})
		e.sink.mu.Lock()
		e.sink.hook = func() {
			go func() {
				e.d.Get(e.super, name)
				e.d.Info(e.super, name)
				close(done)
			}()
			select {
			case <-done:
			case <-time.After(30 * time.Millisecond):
			}
		}
		e.sink.mu.Unlock()
		defer func() {
			e.sink.mu.Lock()
			fired := e.sink.hook == nil
			e.sink.hook = nil
			e.sink.mu.Unlock()
			if fired {
				<-done
			}
		}()
	}
	callDone := make(chan struct{})
	go func() {
		defer close(callDone)
		func() {
			defer func() {
				if p := recover(); p != nil {
					o.Res = resObs{Class: "other", Err: fmt.Sprintf("PANIC: %v", p)}
					o.Note += "panic; "
					err = nil
				}
			}()
			switch st.Kind {
			case "list":
				var infos []*api.SecretInfo
				infos, err = e.d.List(c)
				if err == nil {
					o.Res = resObs{Class: "list"}
					for _, in := range infos {
						o.Res.List = append(o.Res.List, infoToDump(in))
					}
					keptList = infos
				}
			case "info":
				var in *api.SecretInfo
				in, err = e.d.Info(c, name)
				if err == nil {
					keptInfo = in
					o.Res = resObs{Class: "info", Act: uint64(in.ActiveVersion)}
					for _, v := range in.Versions {
						o.Res.Vers = append(o.Res.Vers, uint64(v))
					}
				}
			case "get", "getcond", "getver":
				var sv *api.SecretValue
				switch st.Kind {
				case "get":
					sv, err = e.d.Get(c, name)
				case "getcond":
					sv, err = e.d.GetConditional(c, name, api.SecretVersion(st.Ver))
				default:
					sv, err = e.d.GetVersion(c, name, api.SecretVersion(st.Ver))
				}
				if err == nil {
					o.Res = resObs{Class: "val", Ver: uint64(sv.Version), Val: valueToken(sv.Value, maxValueToken)}
					scribble(sv.Value) // the caller overwrites what it was handed: the store must not follow it
				}
			case "put":
				var v api.SecretVersion
				buf := valueBytes(st.Val)
				v, err = e.d.Put(c, name, buf)
				scribble(buf) // the caller reuses its buffer: what was stored must not follow it
				if err == nil {
					o.Res = resObs{Class: "ver", Ver: uint64(v)}
				}
			case "activate":
				err = e.d.Activate(c, name, api.SecretVersion(st.Ver))
				if err == nil {
					o.Res = resObs{Class: "ok"}
				}
			case "delver":
				err = e.d.DeleteVersion(c, name, api.SecretVersion(st.Ver))
				if err == nil {
					o.Res = resObs{Class: "ok"}
				}
			case "del":
				err = e.d.Delete(c, name)
				if err == nil {
					o.Res = resObs{Class: "ok"}
				}
			default:
				fatal("unknown op kind %q", st.Kind)
			}
		}()
	}()
	select {
	case <-callDone:
	case <-time.After(dbCallTimeout):
		// the call never returned (a lock kept, a wait nobody ends): the handle is unusable from here on
		e.hung = true
		o.Res = resObs{Class: "other", Err: "HANG: the call did not return within " + dbCallTimeout.String()}
		o.Note += "hang; "
		o.LiveKind = "na"
		return o
	}
	if err != nil {
		o.Res = resObs{Class: classify(err), Err: err.Error()}
	}
	o.KEKCalls = e.kek.count() - kek0
	e.sink.mu.Lock()
	e.sink.noteSave() // a save after the last audit record
	if st.SaveFail {
		e.sink.dbPath = e.path
	}
	o.Fx = append([]fxObs(nil), e.sink.fx...)
	if e.sink.failNext != "" {
		e.sink.failNext = "" // the call wrote no record: the fault was not consumed
	}
	e.sink.wantHost, e.sink.wantIP = "", ""
	for _, f := range o.Fx {
		if f.Kind == "auditfail" {
			e.sink.dead = true
		}
	}
	e.sink.mu.Unlock()
	if st.SaveFail {
		if err := os.Rename(hidden, e.state); err != nil {
			fatal("restore state dir: %v", err)
		}
	}
	e.observeState(&o)
	// observeState has just listed everything as the superuser through the same handle: what this call's
	// caller was handed must still say what it said (a result that follows later calls discloses their data)
	if keptList != nil {
		var again []secDump
		for _, in := range keptList {
			if in != nil {
				again = append(again, infoToDump(in))
			}
		}
		if !sameDump(again, o.Res.List, true) {
			o.Res.List = again
			o.Note += "the list result changed after another caller listed; "
		}
	}
	if keptInfo != nil {
		again := resObs{Class: "info", Act: uint64(keptInfo.ActiveVersion)}
		for _, v := range keptInfo.Versions {
			again.Vers = append(again.Vers, uint64(v))
		}
		if again.Act != o.Res.Act || !slices.Equal(again.Vers, o.Res.Vers) {
			o.Res = again
			o.Note += "the info result changed after a later call; "
		}
	}
	return o
}

// ---- Gallina printing ----

func coqCaller(c DBCaller) string {
	rs := make([]string, len(c.Rules))
	for i, r := range c.Rules {
		acts := make([]string, len(r.Actions))
		for j, a := range r.Actions {
			acts[j] = coqAction(a)
		}
		secs := make([]string, len(r.Secrets))
		for j, x := range r.Secrets {
			secs[j] = coqBytes(x)
		}
		rs[i] = fmt.Sprintf("Rl %s %s", coqList(acts), coqList(secs))
	}
	return fmt.Sprintf("Cl %d %s", c.ID, coqList(rs))
}

func coqOp(st DBStep) string {
	n := coqBytes(st.Name)
	switch st.Kind {
	case "list":
		return "OList"
	case "info":
		return "OInfo " + n
	case "get":
		return "OGet " + n
	case "getcond":
		return fmt.Sprintf("OGetCond %s %d", n, st.Ver)
	case "getver":
		return fmt.Sprintf("OGetVer %s %d", n, st.Ver)
	case "put":
		return fmt.Sprintf("OPut %s %d", n, st.Val)
	case "activate":
		return fmt.Sprintf("OActivate %s %d", n, st.Ver)
	case "delver":
		return fmt.Sprintf("ODelVer %s %d", n, st.Ver)
	case "del":
		return "ODel " + n
	}
	fatal("coqOp: %q", st.Kind)
	return ""
}

func coqVers(vs []verVal) string {
	parts := make([]string, len(vs))
	for i, v := range vs {
		parts[i] = fmt.Sprintf("(%d,%d)", v.Ver, v.Val)
	}
	return coqList(parts)
}

func coqDisk(d []secDump) string {
	parts := make([]string, len(d))
	for i, s := range d {
		parts[i] = fmt.Sprintf("(%s,%s,%d,%d)", coqBytes(s.Name), coqVers(s.Vers), s.Active, s.Latest)
	}
	return coqList(parts)
}

func coqLive(d []secDump) string {
	parts := make([]string, len(d))
	for i, s := range d {
		parts[i] = fmt.Sprintf("(%s,%s,%d)", coqBytes(s.Name), coqVers(s.Vers), s.Active)
	}
	return coqList(parts)
}

func coqRes(r resObs) string {
	switch r.Class {
	case "list":
		parts := make([]string, len(r.List))
		for i, s := range r.List {
			vs := make([]uint64, len(s.Vers))
			for j, v := range s.Vers {
				vs[j] = v.Ver
			}
			parts[i] = fmt.Sprintf("(%s,%s,%d)", coqBytes(s.Name), coqNList(vs), s.Active)
		}
		return "(RList " + coqList(parts) + ")"
	case "info":
		return fmt.Sprintf("(RInfo %s %d)", coqNList(r.Vers), r.Act)
	case "val":
		return fmt.Sprintf("(RVal %d %d)", r.Ver, r.Val)
	case "ver":
		return fmt.Sprintf("(RVer %d)", r.Ver)
	case "ok":
		return "ROk"
	case "notchanged":
		return "RNotChanged"
	case "denied":
		return "RDenied"
	case "notfound":
		return "RNotFound"
	}
	return "ROther"
}

func coqFx(fx []fxObs) string {
	parts := make([]string, len(fx))
	for i, f := range fx {
		switch f.Kind {
		case "audit":
			p := f.Rec.Principal
			if p < 0 {
				p = 888888
			}
			parts[i] = fmt.Sprintf("EA %d %s %s %d %s",
				p, coqAction(f.Rec.Action), coqBytes(f.Rec.Secret), f.Rec.Version, coqBool(f.Rec.Authorized))
		case "auditfail":
			parts[i] = "EAuditFail"
		case "syncfail":
			parts[i] = "ESyncFail"
		case "save":
			parts[i] = "ESave"
		}
	}
	return coqList(parts)
}

func coqStep(st DBStep, o stepObs) string {
	au := "AOk"
	switch st.Audit {
	case "write":
		au = "AWriteFail"
	case "sync":
		au = "ASyncFail"
	}
	live := "LiveSame"
	switch o.LiveKind {
	case "dump":
		live = "(LiveDump " + coqLive(o.Live) + ")"
	case "na":
		live = "LiveNA"
	}
	return fmt.Sprintf("St %s %s %d (%s) %s %s %s %s %d",
		coqBool(!st.SaveFail), au, st.Caller, coqOp(st), coqRes(o.Res), coqFx(o.Fx), live, coqDisk(o.Disk), o.Gen)
}

func coqCase(in DBInput, obs []stepObs) string {
	cs := make([]string, len(in.Callers))
	for i, c := range in.Callers {
		cs[i] = coqCaller(c)
	}
	ss := make([]string, len(in.Ops))
	for i := range in.Ops {
		ss[i] = coqStep(in.Ops[i], obs[i])
	}
	return "Case " + coqList(cs) + " " + coqList(ss)
}
