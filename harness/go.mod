module verifharness

go 1.24.0

require github.com/tailscale/setec v0.0.0

replace github.com/tailscale/setec => /repo
