module verifharness

go 1.24.0

require (
	github.com/tailscale/setec v0.0.0
	github.com/tink-crypto/tink-go/v2 v2.1.0
)

require (
	golang.org/x/crypto v0.35.0 // indirect
	golang.org/x/sys v0.31.0 // indirect
	google.golang.org/protobuf v1.35.1 // indirect
	tailscale.com v1.81.0-pre.0.20250303195457-5449aba94c51 // indirect
)

replace github.com/tailscale/setec => /repo
