module verifharness

go 1.24.0

require (
	github.com/aws/aws-sdk-go-v2 v1.36.0
	github.com/aws/aws-sdk-go-v2/credentials v1.17.58
	github.com/aws/aws-sdk-go-v2/service/s3 v1.75.3
	github.com/tailscale/setec v0.0.0
	github.com/tink-crypto/tink-go/v2 v2.1.0
	tailscale.com v1.81.0-pre.0.20250303195457-5449aba94c51
)

require (
	github.com/aws/aws-sdk-go-v2/aws/protocol/eventstream v1.6.8 // indirect
	github.com/aws/aws-sdk-go-v2/config v1.29.5 // indirect
	github.com/aws/aws-sdk-go-v2/feature/ec2/imds v1.16.27 // indirect
	github.com/aws/aws-sdk-go-v2/internal/configsources v1.3.31 // indirect
	github.com/aws/aws-sdk-go-v2/internal/endpoints/v2 v2.6.31 // indirect
	github.com/aws/aws-sdk-go-v2/internal/ini v1.8.2 // indirect
	github.com/aws/aws-sdk-go-v2/internal/v4a v1.3.31 // indirect
	github.com/aws/aws-sdk-go-v2/service/internal/accept-encoding v1.12.2 // indirect
	github.com/aws/aws-sdk-go-v2/service/internal/checksum v1.5.5 // indirect
	github.com/aws/aws-sdk-go-v2/service/internal/presigned-url v1.12.12 // indirect
	github.com/aws/aws-sdk-go-v2/service/internal/s3shared v1.18.12 // indirect
	github.com/aws/aws-sdk-go-v2/service/sso v1.24.14 // indirect
	github.com/aws/aws-sdk-go-v2/service/ssooidc v1.28.13 // indirect
	github.com/aws/aws-sdk-go-v2/service/sts v1.33.13 // indirect
	github.com/aws/smithy-go v1.22.2 // indirect
	github.com/go-json-experiment/json v0.0.0-20250223041408-d3c622f1b874 // indirect
	go4.org/mem v0.0.0-20240501181205-ae6ca9944745 // indirect
	golang.org/x/crypto v0.35.0 // indirect
	golang.org/x/net v0.35.0 // indirect
	golang.org/x/sync v0.12.0 // indirect
	golang.org/x/sys v0.31.0 // indirect
	google.golang.org/protobuf v1.35.1 // indirect
)

replace github.com/tailscale/setec => /repo
