package main

// Golden schema-version-1 database files (property C03): written once by the pinned
// release (command "mkgolden", built against a worktree of the pinned commit) and
// reopened on every run by the current tree.

import (
	"bytes"
	"encoding/json"
	"fmt"
	"os"
	"path/filepath"
	"strings"

	"github.com/tailscale/setec/audit"
	"github.com/tailscale/setec/db"
	"github.com/tink-crypto/tink-go/v2/aead"
	"github.com/tink-crypto/tink-go/v2/insecurecleartextkeyset"
	"github.com/tink-crypto/tink-go/v2/keyset"
	"io"
)

type goldenMeta struct {
	Commit   string    `json:"written_by_commit"`
	Ops      []DBStep  `json:"ops"`
	Expected []secDump `json:"expected"`
}

func init() {
	commands["mkgolden"] = mkGolden
}

func mkGolden(o Opts) {
	dir := o.Out // output directory
	os.MkdirAll(dir, 0755)
	for i := 0; i < 6; i++ {
		r := NewRand(4242, uint64(i))
		h, err := keyset.NewHandle(aead.AES256GCMKeyTemplate())
		if err != nil {
			fatal("%v", err)
		}
		var kbuf bytes.Buffer
		if err := insecurecleartextkeyset.Write(h, keyset.NewJSONWriter(&kbuf)); err != nil {
			fatal("%v", err)
		}
		kek, _ := aead.New(h)
		work := filepath.Join(dir, "tmp")
		os.RemoveAll(work)
		os.MkdirAll(work, 0700)
		path := filepath.Join(work, "db.json")
		d, err := db.Open(path, kek, audit.New(io.Discard))
		if err != nil {
			fatal("%v", err)
		}
		super := mkCaller(DBCaller{ID: 0, Rules: superRules()})
		var ops []DBStep
		var last []secDump
		deleted := map[string][]uint32{}
		n := 5 + 8*i
		for len(ops) < n {
			st := genStep(r, profC03, nil, last, deleted)
			st.SaveFail, st.Audit = false, ""
			if !isMut(st.Kind) {
				continue
			}
			ops = append(ops, st)
			name := string(st.Name)
			switch st.Kind {
			case "put":
				d.Put(super, name, valueBytes(st.Val))
			case "activate":
				d.Activate(super, name, apiVer(st.Ver))
			case "delver":
				if d.DeleteVersion(super, name, apiVer(st.Ver)) == nil {
					deleted[name] = append(deleted[name], st.Ver)
				}
			case "del":
				d.Delete(super, name)
			}
			last, _ = decodeFile(path, kek)
		}
		exp, err := decodeFile(path, kek)
		if err != nil {
			fatal("decode: %v", err)
		}
		bs, _ := os.ReadFile(path)
		os.WriteFile(filepath.Join(dir, fmt.Sprintf("g%d.db", i)), bs, 0644)
		os.WriteFile(filepath.Join(dir, fmt.Sprintf("g%d.kek.json", i)), kbuf.Bytes(), 0644)
		mb, _ := json.MarshalIndent(goldenMeta{Commit: os.Getenv("GOLDEN_COMMIT"), Ops: ops, Expected: exp}, "", " ")
		os.WriteFile(filepath.Join(dir, fmt.Sprintf("g%d.meta.json", i)), mb, 0644)
		os.RemoveAll(work)
	}
}

// goldenRecords reopens every golden file with the current tree.
func goldenRecords(work string) []Record {
	root := os.Getenv("VERIF_ROOT")
	if root == "" {
		root = "/verif"
	}
	dir := filepath.Join(root, "golden")
	ents, _ := os.ReadDir(dir)
	var out []Record
	for _, e := range ents {
		if !strings.HasSuffix(e.Name(), ".db") {
			continue
		}
		base := strings.TrimSuffix(e.Name(), ".db")
		var meta goldenMeta
		mb, err := os.ReadFile(filepath.Join(dir, base+".meta.json"))
		if err != nil || json.Unmarshal(mb, &meta) != nil {
			fatal("golden %s: bad meta", base)
		}
		kb, _ := os.ReadFile(filepath.Join(dir, base+".kek.json"))
		h, err := insecurecleartextkeyset.Read(keyset.NewJSONReader(bytes.NewReader(kb)))
		if err != nil {
			fatal("golden %s: kek: %v", base, err)
		}
		kek, _ := aead.New(h)
		tmp := filepath.Join(work, "golden-"+base)
		os.RemoveAll(tmp)
		os.MkdirAll(tmp, 0700)
		path := filepath.Join(tmp, "db.json")
		bs, _ := os.ReadFile(filepath.Join(dir, e.Name()))
		os.WriteFile(path, bs, 0600)
		h0 := fileHash(path)
		var observed []secDump
		note := ""
		d, err := db.Open(path, kek, audit.New(io.Discard))
		if err != nil {
			note = "db.Open failed: " + err.Error()
			observed = []secDump{{Name: []byte("<<open failed>>")}}
		} else {
			super := mkCaller(DBCaller{ID: 0, Rules: superRules()})
			observed, err = dumpVia(d, super)
			if err != nil {
				note = "dump failed: " + err.Error()
				observed = []secDump{{Name: []byte("<<dump failed>>")}}
			}
			// counters: probe each name with a fresh put on this scratch copy
			for i := range observed {
				v, perr := d.Put(super, string(observed[i].Name), []byte("golden-probe-value"))
				if perr == nil {
					observed[i].Latest = uint64(v) - 1
				}
			}
		}
		rec := Record{Kind: "golden", Input: map[string]any{"golden": base}, Obs: map[string]any{"observed": observed, "note": note},
			Key: "golden:" + base, Nontrivial: len(meta.Expected) > 0, Tags: []string{"golden"},
			Coq: "Golden " + coqDisk(meta.Expected) + " " + coqDisk(observed)}
		if note == "" && h0 != fileHash(filepath.Join(dir, e.Name())) {
			rec.Direct = &DirectVerdict{OK: false, What: "golden copy differs from the committed file"}
		}
		os.RemoveAll(tmp)
		out = append(out, rec)
	}
	return out
}
