package main

import (
	"flag"
	"fmt"
	"os"
)

type Opts struct {
	Tier   string
	Seed   uint64
	Out    string
	Replay string
	Corpus string
	Work   string
	N      int
}

var commands = map[string]func(o Opts){}

func main() {
	if len(os.Args) < 2 {
		fmt.Fprintln(os.Stderr, "usage: harness <property> [flags]")
		os.Exit(2)
	}
	cmd := os.Args[1]
	fs := flag.NewFlagSet(cmd, flag.ExitOnError)
	var o Opts
	fs.StringVar(&o.Tier, "tier", "quick", "quick|thorough")
	fs.Uint64Var(&o.Seed, "seed", 1, "PRNG seed")
	fs.StringVar(&o.Out, "out", "cases.jsonl", "output file (JSON lines)")
	fs.StringVar(&o.Replay, "replay", "", "re-run the inputs in this JSON-lines file instead of generating")
	fs.StringVar(&o.Corpus, "corpus", "", "corpus directory (run first)")
	fs.StringVar(&o.Work, "work", "", "scratch directory")
	fs.IntVar(&o.N, "n", 0, "override number of generated cases")
	fs.Parse(os.Args[2:])
	fn, ok := commands[cmd]
	if !ok {
		fmt.Fprintf(os.Stderr, "unknown property %q\n", cmd)
		os.Exit(2)
	}
	os.Setenv("VERIF_TIER_INTERNAL", o.Tier)
	os.Setenv("VERIF_SEED_INTERNAL", fmt.Sprint(o.Seed))
	fn(o)
}
