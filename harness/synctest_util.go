package main

import (
	"flag"
	"os"
	"testing"
	"testing/synctest"
)

// inTest runs fn with a real *testing.T from this plain binary (testing.Main is a
// public entry point), so that testing/synctest bubbles (virtual time) can be used.
// It never returns: testing.Main exits the process (status 0 if fn did not fail).
// Flush and close all outputs inside fn.
func inTest(fn func(t *testing.T)) {
	os.Args = []string{os.Args[0], "-test.timeout=0", "-test.v=false"}
	flag.CommandLine = flag.NewFlagSet(os.Args[0], flag.ExitOnError)
	testing.Init()
	testing.Main(func(pat, str string) (bool, error) { return true, nil },
		[]testing.InternalTest{{Name: "Harness", F: fn}}, nil, nil)
}

// bubble runs one scenario inside a fresh synctest bubble (virtual clock starting at
// 2000-01-01 00:00:00 UTC; time advances only when every goroutine of the bubble is
// durably blocked). The scenario must leave no goroutine behind.
func bubble(t *testing.T, scenario func(t *testing.T)) {
	synctest.Test(t, scenario)
}
