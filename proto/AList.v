From Coq Require Import List Bool NArith Lia.
Import ListNotations.
Set Implicit Arguments.

Class EqB (A : Type) := { eqb : A -> A -> bool; eqb_spec : forall a b, eqb a b = true <-> a = b }.
#[global] Program Instance EqB_N : EqB N := {| eqb := N.eqb |}.
Next Obligation. apply N.eqb_eq. Qed.

Definition alist (K V : Type) := list (K * V).

Section AList.
Context {K V : Type} `{EK : EqB K}.
Notation keqb := (@eqb K EK).
Definition keqb_spec := (@eqb_spec K EK).

Lemma keqb_refl a : keqb a a = true. Proof. apply keqb_spec; reflexivity. Qed.
Lemma keqb_neq a b : a <> b -> keqb a b = false.
Proof. intro H. destruct (keqb a b) eqn:E; auto. apply keqb_spec in E. contradiction. Qed.
Lemma keqb_false a b : keqb a b = false -> a <> b.
Proof. intros E ->. rewrite keqb_refl in E. discriminate. Qed.


Fixpoint find (k : K) (m : alist K V) : option V :=
  match m with [] => None | (k', v) :: m' => if keqb k k' then Some v else find k m' end.

Fixpoint upd (k : K) (v : V) (m : alist K V) : alist K V :=
  match m with
  | [] => [(k, v)]
  | (k', v') :: m' => if keqb k k' then (k, v) :: m' else (k', v') :: upd k v m'
  end.

Fixpoint del (k : K) (m : alist K V) : alist K V :=
  match m with
  | [] => []
  | (k', v') :: m' => if keqb k k' then del k m' else (k', v') :: del k m'
  end.

Definition keys (m : alist K V) : list K := map fst m.

Lemma find_upd_eq k v m : find k (upd k v m) = Some v.
Proof. induction m as [|[k' v'] m IH]; cbn; [rewrite keqb_refl; auto|]. destruct (keqb k k') eqn:E; cbn; [rewrite keqb_refl|rewrite E]; auto. Qed.

Lemma find_upd_neq k k' v m : k' <> k -> find k' (upd k v m) = find k' m.
Proof.
  intro N. induction m as [|[k2 v2] m IH]; cbn.
  - rewrite (keqb_neq N). reflexivity.
  - destruct (keqb k k2) eqn:E; cbn.
    + apply keqb_spec in E; subst k2. rewrite (keqb_neq N). reflexivity.
    + destruct (keqb k' k2); auto.
Qed.

Lemma find_del_eq k m : find k (del k m) = None.
Proof. induction m as [|[k' v'] m IH]; cbn; auto. destruct (keqb k k') eqn:E; cbn; [|rewrite E]; auto. Qed.

Lemma find_del_neq k k' m : k' <> k -> find k' (del k m) = find k' m.
Proof.
  intro N. induction m as [|[k2 v2] m IH]; cbn; auto.
  destruct (keqb k k2) eqn:E; cbn.
  - apply keqb_spec in E; subst k2. rewrite (keqb_neq N). apply IH.
  - destruct (keqb k' k2); auto.
Qed.

Lemma find_In k v m : find k m = Some v -> In (k, v) m.
Proof. induction m as [|[k' v'] m IH]; cbn; [discriminate|]. destruct (keqb k k') eqn:E; intro H.
  - apply keqb_spec in E; subst. injection H as ->. auto.
  - auto.
Qed.

Lemma find_None_keys k m : find k m = None <-> ~ In k (keys m).
Proof.
  induction m as [|[k' v'] m IH]; cbn; [tauto|]. destruct (keqb k k') eqn:E.
  - apply keqb_spec in E; subst. split; [discriminate|]. intro H; exfalso; apply H; auto.
  - apply keqb_false in E. rewrite IH. split; intro H; [intros [F|F]; [congruence|auto] | auto].
Qed.

Lemma keys_upd_in k v m x : In x (keys (upd k v m)) <-> x = k \/ In x (keys m).
Proof.
  induction m as [|[k' v'] m IH]; cbn; [intuition congruence|]. destruct (keqb k k') eqn:E; cbn.
  - apply keqb_spec in E; subst. intuition congruence.
  - rewrite IH. intuition congruence.
Qed.

Lemma NoDup_upd k v m : NoDup (keys m) -> NoDup (keys (upd k v m)).
Proof.
  induction m as [|[k' v'] m IH]; cbn; intro H.
  - constructor; [intros []|constructor].
  - inversion H; subst. destruct (keqb k k') eqn:E; cbn.
    + apply keqb_spec in E; subst. constructor; auto.
    + constructor; auto. intro F. apply keys_upd_in in F. destruct F as [->|F]; [rewrite keqb_refl in E; discriminate|auto].
Qed.

Lemma keys_del_in k m x : In x (keys (del k m)) <-> x <> k /\ In x (keys m).
Proof.
  induction m as [|[k' v'] m IH]; cbn; [tauto|]. destruct (keqb k k') eqn:E; cbn.
  - apply keqb_spec in E; subst. rewrite IH. intuition congruence.
  - apply keqb_false in E. rewrite IH. intuition congruence.
Qed.

Lemma NoDup_del k m : NoDup (keys m) -> NoDup (keys (del k m)).
Proof.
  induction m as [|[k' v'] m IH]; cbn; intro H; [constructor|]. inversion H; subst.
  destruct (keqb k k'); cbn; auto. constructor; auto. intro F. apply keys_del_in in F. tauto.
Qed.

Lemma find_Some_keys k v m : find k m = Some v -> In k (keys m).
Proof. intro H. apply find_In in H. apply (in_map fst) in H. exact H. Qed.

End AList.
