From Coq Require Import List Bool NArith Lia.
Import ListNotations.
Set Implicit Arguments.

(* Symbolic terms *)
Inductive term :=
| Pub (n : N)                       (* public constant: field names, version numbers, contexts *)
| Sec (n : N)                       (* secret atom: a secret's name or value *)
| Key (k : N)                       (* a symmetric key *)
| Tup (l : list term)               (* any structure: JSON object/array/pair *)
| Code (t : term)                   (* any invertible encoding: base64, hex, JSON escaping *)
| Enc (k : N) (ad : N) (r : N) (m : term).   (* AEAD ciphertext under key k, associated data ad, nonce r *)

Section Secrecy.
Variable protected : N -> Prop.     (* keys the attacker does not hold: kek, dek *)

(* what the attacker can derive from a knowledge set *)
Inductive derives (K : term -> Prop) : term -> Prop :=
| d_in t : K t -> derives K t
| d_proj l t : derives K (Tup l) -> In t l -> derives K t
| d_decode t : derives K (Code t) -> derives K t
| d_open k ad r m : derives K (Enc k ad r m) -> derives K (Key k) -> derives K m.

(* a term is safe to publish: secrets and protected keys occur only under encryption with a protected key *)
Inductive safe : term -> Prop :=
| s_pub n : safe (Pub n)
| s_key k : ~ protected k -> safe (Key k)
| s_tup l : (forall t, In t l -> safe t) -> safe (Tup l)
| s_code t : safe t -> safe (Code t)
| s_enc_prot k ad r m : protected k -> safe (Enc k ad r m)
| s_enc_open k ad r m : safe m -> safe (Enc k ad r m).

Theorem derives_safe (K : term -> Prop) : (forall t, K t -> safe t) -> forall t, derives K t -> safe t.
Proof.
  intros HK t D. induction D as [t H|l t D IH Hin|t D IH|k ad r m D1 IH1 D2 IH2].
  - auto.
  - inversion IH; subst. auto.
  - inversion IH; subst. auto.
  - inversion IH2 as [|k' NP| | | |]; subst. inversion IH1; subst; [contradiction|assumption].
Qed.

Corollary secret_not_derivable (K : term -> Prop) n : (forall t, K t -> safe t) -> ~ derives K (Sec n).
Proof. intros HK D. apply (derives_safe HK) in D. inversion D. Qed.

Corollary protected_key_not_derivable (K : term -> Prop) k : (forall t, K t -> safe t) -> protected k -> ~ derives K (Key k).
Proof. intros HK P D. apply (derives_safe HK) in D. inversion D; contradiction. Qed.
End Secrecy.

(* The database file as setec writes it *)
Definition adDEK : N := 1. Definition adDB : N := 2.
Definition wrapper (ver : term) (dekf dbf : term) : term :=
  Tup [Tup [Pub 10; ver]; Tup [Pub 11; Code dekf]; Tup [Pub 12; Code dbf]].
Definition file_of (kek dek r1 r2 : N) (doc : term) : term :=
  wrapper (Pub 1) (Enc kek adDEK r1 (Key dek)) (Enc dek adDB r2 doc).

Lemma file_safe kek dek r1 r2 doc (protected : N -> Prop) :
  protected kek -> protected dek -> safe protected (file_of kek dek r1 r2 doc).
Proof.
  intros Pk Pd. unfold file_of, wrapper.
  constructor. intros t [<-|[<-|[<-|[]]]]; constructor; intros t' [<-|[<-|[]]]; try constructor.
  - apply s_enc_prot; auto.
  - apply s_enc_prot; auto.
Qed.

(* whatever the documents contain (any secret names and values), every file ever written is safe,
   hence no secret atom is derivable from the set of all files *)
Theorem files_reveal_nothing kek dek (files : term -> Prop) n :
  (forall f, files f -> exists r1 r2 doc, f = file_of kek dek r1 r2 doc) ->
  ~ derives files (Sec n).
Proof.
  intros H. apply secret_not_derivable with (protected := fun k => k = kek \/ k = dek). intros f Hf. destruct (H f Hf) as (r1 & r2 & doc & ->).
  apply file_safe; auto.
Qed.

(* opening a file: exact image of openOrCreateKV on the symbolic level *)
Definition open (kek : N) (f : term) : option term :=
  match f with
  | Tup [Tup [Pub 10; Pub 1]; Tup [Pub 11; Code (Enc k1 ad1 _ (Key dek))]; Tup [Pub 12; Code (Enc k2 ad2 _ doc)]] =>
    if (N.eqb k1 kek && N.eqb ad1 adDEK && N.eqb k2 dek && N.eqb ad2 adDB)%bool then Some doc else None
  | _ => None
  end.

Theorem open_sound kek ver dekf dbf doc :
  open kek (wrapper ver dekf dbf) = Some doc ->
  ver = Pub 1 /\ exists dek r1 r2, dekf = Enc kek adDEK r1 (Key dek) /\ dbf = Enc dek adDB r2 doc.
Proof.
  unfold open, wrapper. intro H.
  destruct ver as [v| | | | |]; try discriminate. 
  destruct v as [|p]; try discriminate. destruct p; try discriminate.
  destruct dekf as [| | | | |k1 ad1 r1 m1]; try discriminate.
  destruct m1 as [| |dek| | |]; try discriminate.
  destruct dbf as [| | | | |k2 ad2 r2 m2]; try discriminate.
  destruct (N.eqb k1 kek && N.eqb ad1 adDEK && N.eqb k2 dek && N.eqb ad2 adDB)%bool eqn:E; try discriminate.
  injection H as ->. repeat (apply andb_true_iff in E; destruct E as [E ?]).
  apply N.eqb_eq in E. repeat match goal with H : N.eqb _ _ = true |- _ => apply N.eqb_eq in H end. subst.
  split; auto. exists dek, r1, r2. auto.
Qed.

Example open_roundtrip : open 7 (file_of 7 9 100 101 (Tup [Sec 1; Sec 2])) = Some (Tup [Sec 1; Sec 2]).
Proof. reflexivity. Qed.
Example swap_rejected : open 7 (wrapper (Pub 1) (Enc 7 adDEK 1 (Key 9)) (Enc 8 adDB 2 (Sec 3))) = None.
Proof. reflexivity. Qed.
Print Assumptions files_reveal_nothing.
Print Assumptions open_sound.
