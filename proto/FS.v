From Coq Require Import List Bool Arith NArith Lia.
Import ListNotations.
Require Import P.AList.
Set Implicit Arguments.
Open Scope N_scope.

(* Abstract paths as the harness classifies them *)
Inductive path := Live | Tmp (i : N) | Other (i : N).
Definition path_eqb (a b : path) : bool :=
  match a, b with Live, Live => true | Tmp i, Tmp j => N.eqb i j | Other i, Other j => N.eqb i j | _, _ => false end.
#[global] Program Instance EqB_path : EqB path := {| eqb := path_eqb |}.
Next Obligation.
  destruct a, b; cbn; split; intro H; try discriminate; try reflexivity;
  try (apply N.eqb_eq in H; subst; reflexivity); try (injection H as ->; apply N.eqb_refl).
Qed.

Section FS.
Variable B : Type.   (* byte *)

Record file := { data : list B; mode : N }.
Definition dir := alist path file.
Definition fdt := alist N path.           (* descriptor -> path *)
Record fs := { d : dir; fds : fdt }.

Inductive op :=
| Stat (p : path)
| CreateExcl (fd : N) (p : path) (m : N)
| OpenTrunc (fd : N) (p : path)
| Write (fd : N) (bs : list B)
| Chmod (fd : N) (m : N)
| Fsync (fd : N)
| Close (fd : N)
| Rename (p q : path)
| Unlink (p : path).

Definition exec1 (s : fs) (o : op) : fs :=
  match o with
  | Stat _ | Fsync _ => s
  | CreateExcl fd p m => {| d := upd p {| data := []; mode := m |} (d s); fds := upd fd p (fds s) |}
  | OpenTrunc fd p =>
      let m := match find p (d s) with Some f => mode f | None => 420 end in
      {| d := upd p {| data := []; mode := m |} (d s); fds := upd fd p (fds s) |}
  | Write fd bs =>
      match find fd (fds s) with
      | Some p => match find p (d s) with
                  | Some f => {| d := upd p {| data := data f ++ bs; mode := mode f |} (d s); fds := fds s |}
                  | None => s end
      | None => s end
  | Chmod fd m =>
      match find fd (fds s) with
      | Some p => match find p (d s) with
                  | Some f => {| d := upd p {| data := data f; mode := m |} (d s); fds := fds s |}
                  | None => s end
      | None => s end
  | Close fd => {| d := d s; fds := del fd (fds s) |}
  | Rename p q =>
      match find p (d s) with
      | Some f => {| d := upd q f (del p (d s)); fds := fds s |}
      | None => s end
  | Unlink p => {| d := del p (d s); fds := fds s |}
  end.

Definition exec (s : fs) (tr : list op) : fs := fold_left exec1 tr s.

Definition read (s : fs) (p : path) : option (list B) := option_map data (find p (d s)).

(* does an operation possibly change what Live holds, given the descriptor table? *)
Definition touches_live (s : fs) (o : op) : bool :=
  match o with
  | CreateExcl _ p _ | OpenTrunc _ p | Unlink p => path_eqb p Live
  | Rename p q => path_eqb p Live || path_eqb q Live
  | Write fd _ | Chmod fd _ => match find fd (fds s) with Some p => path_eqb p Live | None => false end
  | _ => false
  end.

(* monitor for the prefix before the rename: Live is never touched *)
Fixpoint quiet (s : fs) (tr : list op) : bool :=
  match tr with
  | [] => true
  | o :: tr' => negb (touches_live s o) && quiet (exec1 s o) tr'
  end.

Lemma exec1_untouched s o : touches_live s o = false -> find Live (d (exec1 s o)) = find Live (d s).
Proof.
  destruct o; cbn [touches_live exec1]; intro H; try reflexivity.
  - cbn [d]. rewrite find_upd_neq; auto. intros <-. cbn in H. discriminate.
  - cbn [d]. rewrite find_upd_neq; auto. intros <-. cbn in H. discriminate.
  - destruct (find fd (fds s)) as [p|]; auto. destruct (find p (d s)); auto. cbn [d].
    rewrite find_upd_neq; auto. intros <-. cbn in H. discriminate.
  - destruct (find fd (fds s)) as [p|]; auto. destruct (find p (d s)); auto. cbn [d].
    rewrite find_upd_neq; auto. intros <-. cbn in H. discriminate.
  - apply orb_false_iff in H. destruct H as [H1 H2]. destruct (find p (d s)); auto. cbn [d].
    rewrite find_upd_neq; [|intros <-; cbn in H2; discriminate].
    rewrite find_del_neq; auto. intros <-. cbn in H1. discriminate.
  - cbn [d]. rewrite find_del_neq; auto. intros <-. cbn in H. discriminate.
Qed.

Lemma quiet_preserves tr : forall s, quiet s tr = true -> find Live (d (exec s tr)) = find Live (d s).
Proof.
  induction tr as [|o tr IH]; intros s H; [reflexivity|].
  cbn [quiet] in H. apply andb_true_iff in H. destruct H as [H1 H2]. apply negb_true_iff in H1.
  unfold exec; cbn [fold_left]. fold (exec (exec1 s o) tr). rewrite IH; auto. apply exec1_untouched; auto.
Qed.

(* a crash (kill) inside operation o: either o did not happen, or, for a write, only a prefix was transferred *)
Inductive partial_of : op -> op -> Prop :=
| PWrite fd bs pre suf : bs = pre ++ suf -> partial_of (Write fd bs) (Write fd pre).

Inductive crash_state (s0 : fs) (tr : list op) : fs -> Prop :=
| CrashBetween k : crash_state s0 tr (exec s0 (firstn k tr))
| CrashInside k o o' : nth_error tr k = Some o -> partial_of o o' ->
                       crash_state s0 tr (exec1 (exec s0 (firstn k tr)) o').

Lemma quiet_firstn tr : forall s k, quiet s tr = true -> quiet s (firstn k tr) = true.
Proof.
  induction tr as [|o tr IH]; intros s k H; destruct k; cbn; auto.
  cbn [quiet] in H. apply andb_true_iff in H. destruct H as [H1 H2]. rewrite H1. cbn. apply IH; auto.
Qed.

Lemma quiet_nth tr : forall s k o, quiet s tr = true -> nth_error tr k = Some o ->
  touches_live (exec s (firstn k tr)) o = false.
Proof.
  induction tr as [|a tr IH]; intros s k o H E; destruct k; cbn in E; try discriminate.
  - injection E as ->. cbn [quiet] in H. apply andb_true_iff in H. destruct H as [H1 _]. apply negb_true_iff in H1. exact H1.
  - cbn [quiet] in H. apply andb_true_iff in H. destruct H as [_ H2].
    cbn [firstn]. unfold exec; cbn [fold_left]. apply IH; auto.
Qed.

(* The protocol: tr = pre ++ [Rename (Tmp t) Live] ++ post, with pre and post quiet about Live,
   and at the rename the temp file holds exactly `new`. *)
Theorem crash_atomic s0 pre post t old new :
  read s0 Live = Some old ->
  quiet s0 pre = true ->
  read (exec s0 pre) (Tmp t) = Some new ->
  quiet (exec s0 (pre ++ [Rename (Tmp t) Live])) post = true ->
  forall s, crash_state s0 (pre ++ Rename (Tmp t) Live :: post) s ->
  read s Live = Some old \/ read s Live = Some new.
Proof.
  intros Hold Hpre Hnew Hpost s Hc.
  assert (Hafter : read (exec s0 (pre ++ [Rename (Tmp t) Live])) Live = Some new).
  { unfold exec. rewrite fold_left_app. cbn [fold_left exec1]. fold (exec s0 pre).
    unfold read in *. destruct (find (Tmp t) (d (exec s0 pre))) as [f|] eqn:F; [|discriminate].
    cbn [d]. rewrite find_upd_eq. exact Hnew. }
  inversion Hc as [k|k o o' E P]; subst.
  - (* between operations *)
    destruct (Nat.le_gt_cases k (length pre)) as [Hk|Hk].
    + left. rewrite firstn_app. replace (k - length pre)%nat with 0%nat by lia. cbn [firstn]. rewrite app_nil_r.
      unfold read. rewrite quiet_preserves; [exact Hold|apply quiet_firstn; auto].
    + right. replace (pre ++ Rename (Tmp t) Live :: post) with ((pre ++ [Rename (Tmp t) Live]) ++ post) by (rewrite <- app_assoc; reflexivity).
      rewrite firstn_app. rewrite firstn_all2 by (rewrite app_length; cbn; lia).
      unfold exec. rewrite fold_left_app. fold (exec s0 (pre ++ [Rename (Tmp t) Live])).
      fold (exec (exec s0 (pre ++ [Rename (Tmp t) Live])) (firstn (k - length (pre ++ [Rename (Tmp t) Live])) post)).
      unfold read. rewrite quiet_preserves; [exact Hafter|apply quiet_firstn; auto].
  - (* inside a write *)
    inversion P; subst.
    destruct (Nat.lt_ge_cases k (length pre)) as [Hk|Hk].
    + left. rewrite nth_error_app1 in E by auto.
      rewrite firstn_app. replace (k - length pre)%nat with 0%nat by lia. cbn [firstn]. rewrite app_nil_r.
      pose proof (quiet_nth _ _ _ Hpre E) as T.
      unfold read. rewrite exec1_untouched; [|exact T].
      rewrite quiet_preserves; [exact Hold|apply quiet_firstn; auto].
    + right. rewrite nth_error_app2 in E by auto.
      destruct (k - length pre)%nat as [|j] eqn:Ej; cbn in E; [discriminate|].
      replace (pre ++ Rename (Tmp t) Live :: post) with ((pre ++ [Rename (Tmp t) Live]) ++ post) by (rewrite <- app_assoc; reflexivity).
      rewrite firstn_app. rewrite firstn_all2 by (rewrite app_length; cbn; lia).
      rewrite app_length. cbn [length]. replace (k - (length pre + 1))%nat with j by lia.
      unfold exec at 1. rewrite fold_left_app. fold (exec s0 (pre ++ [Rename (Tmp t) Live])).
      fold (exec (exec s0 (pre ++ [Rename (Tmp t) Live])) (firstn j post)).
      pose proof (quiet_nth _ _ _ Hpost E) as T.
      unfold read. rewrite exec1_untouched; [|exact T].
      rewrite quiet_preserves; [exact Hafter|apply quiet_firstn; auto].
Qed.

End FS.
Print Assumptions crash_atomic.
