From Coq Require Import List Bool NArith Lia Permutation.
Import ListNotations.
Set Implicit Arguments.

Section Lin.
Variables (St Op Res : Type).
Variable step : St -> Op -> St * Res.
Variable reqb : Res -> Res -> bool.
Hypothesis reqb_spec : forall a b, reqb a b = true <-> a = b.

(* one completed call: invocation stamp, response stamp, operation, observed result *)
Record call := { inv : N; rsp : N; cop : Op; cres : Res }.

Definition before (a b : call) : bool := N.ltb (rsp a) (inv b).   (* a finished before b started *)

(* sequential legality of a total order *)
Fixpoint legal (s : St) (l : list call) : Prop :=
  match l with
  | [] => True
  | c :: l' => snd (step s (cop c)) = cres c /\ legal (fst (step s (cop c))) l'
  end.

(* the order respects real time *)
Fixpoint rt_ok (l : list call) : Prop :=
  match l with
  | [] => True
  | c :: l' => (forall d, In d l' -> before d c = false) /\ rt_ok l'
  end.

Definition linearizable (s : St) (h : list call) : Prop :=
  exists l, Permutation l h /\ rt_ok l /\ legal s l.

(* all ways to pick one element *)
Fixpoint picks (l : list call) : list (call * list call) :=
  match l with
  | [] => []
  | c :: l' => (c, l') :: map (fun '(d, r) => (d, c :: r)) (picks l')
  end.

Lemma picks_perm l c r : In (c, r) (picks l) -> Permutation (c :: r) l.
Proof.
  revert c r; induction l as [|a l IH]; cbn; intros c r H; [contradiction|].
  destruct H as [H|H].
  - injection H as -> ->. reflexivity.
  - apply in_map_iff in H. destruct H as ([d r'] & E & H). injection E as -> <-.
    apply IH in H. rewrite perm_swap. constructor. exact H.
Qed.

Lemma picks_complete l c r : Permutation (c :: r) l -> exists r', In (c, r') (picks l) /\ Permutation r r'.
Proof.
  revert c r; induction l as [|a l IH]; intros c r H.
  - apply Permutation_sym, Permutation_nil in H. discriminate.
  - assert (Hin : In c (a :: l)) by (eapply Permutation_in; [exact H|left; reflexivity]).
    destruct Hin as [->|Hin].
    + exists l. split; [left; reflexivity|]. eapply Permutation_cons_inv; eauto.
    + apply in_split in Hin. destruct Hin as (l1 & l2 & ->).
      assert (P1 : Permutation (c :: l1 ++ l2) (l1 ++ c :: l2)) by apply Permutation_middle.
      destruct (IH c (l1 ++ l2) P1) as (r' & Hr' & Pr').
      exists (a :: r'). split.
      * right. apply in_map_iff. exists (c, r'). auto.
      * assert (P2 : Permutation (c :: r) (c :: a :: l1 ++ l2)).
        { rewrite H. rewrite perm_swap. constructor. symmetry. exact P1. }
        apply Permutation_cons_inv in P2. rewrite P2. constructor. exact Pr'.
Qed.

Definition minimal (c : call) (r : list call) : bool := forallb (fun d => negb (before d c)) r.

Fixpoint lin (fuel : nat) (s : St) (h : list call) : bool :=
  match h with
  | [] => true
  | _ =>
    match fuel with
    | O => false
    | S f =>
      existsb (fun '(c, r) =>
        minimal c r && (let '(s', res) := step s (cop c) in reqb res (cres c) && lin f s' r)) (picks h)
    end
  end.

Lemma rt_ok_perm_min c r r' : (forall d, In d r -> before d c = false) -> Permutation r r' -> minimal c r' = true.
Proof.
  intros H P. apply forallb_forall. intros d Hd. rewrite H; auto. eapply Permutation_in; [symmetry; exact P|exact Hd].
Qed.

Theorem lin_sound fuel s h : lin fuel s h = true -> linearizable s h.
Proof.
  revert s h; induction fuel as [|f IH]; intros s h H.
  - destruct h; [|discriminate]. exists []. cbn; auto.
  - destruct h as [|a h0]; [exists []; cbn; auto|].
    cbn [lin] in H. apply existsb_exists in H. destruct H as ([c r] & Hin & H).
    apply andb_true_iff in H. destruct H as [Hm H].
    destruct (step s (cop c)) as [s' res] eqn:E. apply andb_true_iff in H. destruct H as [Hr H].
    apply reqb_spec in Hr. apply IH in H. destruct H as (l & P & RT & L).
    exists (c :: l). split; [|split].
    + rewrite P. apply picks_perm. exact Hin.
    + cbn. split; auto. intros d Hd. unfold minimal in Hm. rewrite forallb_forall in Hm.
      assert (In d r) by (eapply Permutation_in; eauto). apply Hm in H. destruct (before d c); auto; discriminate.
    + cbn. rewrite E. cbn. auto.
Qed.

(* rt_ok and legal are stable when the tail is permuted? No: completeness goes by induction on the witness. *)
Lemma lin_perm_invariant : True. Proof. exact I. Qed.

Theorem lin_complete_aux l : forall fuel s h, Permutation l h -> rt_ok l -> legal s l -> length h <= fuel -> lin fuel s h = true.
Proof.
  induction l as [|c l IH]; intros fuel s h P RT L F.
  - apply Permutation_nil in P. subst. destruct fuel; reflexivity.
  - destruct h as [|a h0]; [apply Permutation_sym, Permutation_nil in P; discriminate|].
    destruct fuel as [|f]; [cbn in F; lia|].
    cbn [lin]. apply existsb_exists.
    destruct (picks_complete P) as (r' & Hin & Pr).
    exists (c, r'). split; [exact Hin|].
    cbn in RT, L. destruct RT as [RT1 RT2]. destruct L as [L1 L2].
    rewrite (rt_ok_perm_min _ RT1 Pr). cbn [andb].
    destruct (step s (cop c)) as [s' res] eqn:E. cbn in L1, L2. subst res.
    assert (Rq : reqb (cres c) (cres c) = true) by (apply reqb_spec; reflexivity). rewrite Rq. cbn [andb].
    apply IH; auto.
    apply picks_perm in Hin. apply Permutation_length in Hin. cbn in Hin, F. lia.
Qed.

Theorem lin_iff s h : lin (length h) s h = true <-> linearizable s h.
Proof.
  split; [apply lin_sound|]. intros (l & P & RT & L). eapply lin_complete_aux; eauto.
Qed.

End Lin.
Print Assumptions lin_iff.
