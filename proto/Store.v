From Coq Require Import List Bool ZArith Lia.
Import ListNotations.
Require Import P.SMap.
Set Implicit Arguments.
Open Scope Z_scope.

Section Store.
Context {K V : Type} `{OK : Ord K}.

Record centry := { ver : Z; val : V; last : Z; decl : bool }.
Record store := { m : @smap K centry; handles : list K; age : Z }.

Definition keqb (a b : K) : bool := match cmp a b with Eq => true | _ => false end.
Definition has_handle (s : store) (n : K) : bool := existsb (keqb n) (handles s).

Lemma keqb_true a b : keqb a b = true <-> a = b.
Proof. unfold keqb. destruct (cmp a b) eqn:E; split; try discriminate; try (intros ->; rewrite cmp_refl in E; discriminate).
  - intros _. apply cmp_eq; auto. - auto. Qed.

Lemma has_handle_In s n : has_handle s n = true <-> In n (handles s).
Proof.
  unfold has_handle. rewrite existsb_exists. split.
  - intros (x & Hx & E). apply keqb_true in E. subst. auto.
  - intro H. exists n. split; auto. apply keqb_true. auto.
Qed.

(* store.go:493 hasExpired, with the F3 repair (no handle) applied in the snapshot *)
Definition expired (s : store) (now : Z) (n : K) (e : centry) : bool :=
  negb (decl e) && (0 <? age s) && (age s <? now - last e) && negb (has_handle s n).

Inductive upd1 := Drop | Install (v : Z) (b : V).

Inductive event :=
| EvSecret (n : K)                                   (* Store.Secret / secretLocked *)
| EvRead (n : K) (now : Z)                           (* call through a handle *)
| EvLookup (n : K) (v : Z) (b : V) (now : Z)         (* successful lookup installs + hands out a handle *)
| EvApply (ups : list (K * upd1)).                   (* applyUpdates after a successful poll *)

Definition apply1 (s : store) (u : K * upd1) : store :=
  let '(n, a) := u in
  match a with
  | Drop => if has_handle s n then s else {| m := del n (m s); handles := handles s; age := age s |}   (* 590-603 *)
  | Install v b =>
    match find n (m s) with
    | Some e => {| m := upd n {| ver := v; val := b; last := last e; decl := decl e |} (m s); handles := handles s; age := age s |}
    | None => s
    end
  end.

Definition step (s : store) (ev : event) : store :=
  match ev with
  | EvSecret n => match find n (m s) with
                  | Some _ => if has_handle s n then s else {| m := m s; handles := n :: handles s; age := age s |}
                  | None => s end
  | EvRead n now => match find n (m s) with
                    | Some e => if has_handle s n then {| m := upd n {| ver := ver e; val := val e; last := now; decl := decl e |} (m s); handles := handles s; age := age s |} else s
                    | None => s end
  | EvLookup n v b now =>
      match find n (m s) with
      | Some _ => s
      | None => {| m := upd n {| ver := v; val := b; last := now; decl := false |} (m s); handles := n :: handles s; age := age s |}
      end
  | EvApply ups => fold_left apply1 ups s
  end.

(* C12: a handle never dangles *)
Definition Inv (s : store) : Prop := forall n, In n (handles s) -> find n (m s) <> None.

Lemma apply1_Inv s u : Inv s -> Inv (apply1 s u).
Proof.
  intros HI. destruct u as [n [|v b]]; cbn [apply1].
  - destruct (has_handle s n) eqn:Hh; auto. intros k Hk. cbn [handles m] in *.
    assert (k <> n). { intros ->. apply has_handle_In in Hk. congruence. }
    rewrite find_del_neq; auto.
  - destruct (find n (m s)) as [e|] eqn:F; auto. intros k Hk. cbn [handles m] in *.
    destruct (cmp k n) eqn:C.
    + apply cmp_eq in C; subst. rewrite find_upd_eq. discriminate.
    + rewrite find_upd_neq; auto. intros ->. rewrite cmp_refl in C. discriminate.
    + rewrite find_upd_neq; auto. intros ->. rewrite cmp_refl in C. discriminate.
Qed.

Lemma fold_apply_Inv ups : forall s, Inv s -> Inv (fold_left apply1 ups s).
Proof. induction ups as [|u ups IH]; cbn; auto. intros s H. apply IH. apply apply1_Inv; auto. Qed.

Theorem step_Inv s ev : Inv s -> Inv (step s ev).
Proof.
  intros HI. destruct ev as [n|n now|n v b now|ups]; cbn [step].
  - destruct (find n (m s)) eqn:F; auto. destruct (has_handle s n); auto.
    intros k [<-|Hk]; cbn [m]; [congruence|auto].
  - destruct (find n (m s)) as [e|] eqn:F; auto. destruct (has_handle s n); auto.
    intros k Hk. cbn [handles m] in *. destruct (cmp k n) eqn:C.
    + apply cmp_eq in C; subst. rewrite find_upd_eq. discriminate.
    + rewrite find_upd_neq; auto. intros ->. rewrite cmp_refl in C. discriminate.
    + rewrite find_upd_neq; auto. intros ->. rewrite cmp_refl in C. discriminate.
  - destruct (find n (m s)) eqn:F; auto. intros k [<-|Hk]; cbn [m].
    + rewrite find_upd_eq. discriminate.
    + destruct (cmp k n) eqn:C.
      * apply cmp_eq in C; subst. rewrite find_upd_eq. discriminate.
      * rewrite find_upd_neq; auto. intros ->. rewrite cmp_refl in C. discriminate.
      * rewrite find_upd_neq; auto. intros ->. rewrite cmp_refl in C. discriminate.
  - apply fold_apply_Inv; auto.
Qed.

Theorem reachable_Inv evs : forall s, Inv s -> Inv (fold_left step evs s).
Proof. induction evs as [|e evs IH]; cbn; auto. intros s H. apply IH, step_Inv, H. Qed.

(* C19: a name disappears only through a Drop mark applied while it has no handle *)
Lemma apply1_keeps s u k : find k (m s) <> None -> find k (m (apply1 s u)) = None ->
  u = (k, Drop) /\ has_handle s k = false.
Proof.
  intros P N. destruct u as [n [|v b]]; cbn [apply1] in N.
  - destruct (has_handle s n) eqn:Hh; [contradiction|]. cbn [m] in N.
    destruct (cmp k n) eqn:C.
    + apply cmp_eq in C; subst. auto.
    + rewrite find_del_neq in N; [contradiction|]. intros ->. rewrite cmp_refl in C. discriminate.
    + rewrite find_del_neq in N; [contradiction|]. intros ->. rewrite cmp_refl in C. discriminate.
  - destruct (find n (m s)) as [e|] eqn:F; [|contradiction]. cbn [m] in N. destruct (cmp k n) eqn:C.
    + apply cmp_eq in C; subst. rewrite find_upd_eq in N. discriminate.
    + rewrite find_upd_neq in N; [contradiction|]. intros ->. rewrite cmp_refl in C. discriminate.
    + rewrite find_upd_neq in N; [contradiction|]. intros ->. rewrite cmp_refl in C. discriminate.
Qed.

(* the poll marks Drop only for expired names (snapshot), so: *)
Definition marks (s : store) (now : Z) : list (K * upd1) :=
  flat_map (fun '(n, e) => if expired s now n e then [(n, Drop)] else []) (m s).

Lemma marks_sound s now n : In (n, Drop) (marks s now) -> exists e, In (n, e) (m s) /\ expired s now n e = true.
Proof.
  unfold marks. rewrite in_flat_map. intros ([k e] & Hin & H). destruct (expired s now k e) eqn:E; [|contradiction].
  destruct H as [H|[]]. injection H as ->. eauto.
Qed.

Theorem dropped_only_if s now n e :
  In (n, Drop) (marks s now) -> sorted (m s) -> find n (m s) = Some e ->
  decl e = false /\ 0 < age s /\ age s < now - last e /\ ~ In n (handles s).
Proof.
  intros Hm Ss F. apply marks_sound in Hm. destruct Hm as (e' & Hin & E).
  apply (@in_find _ _ _ n e' _ Ss) in Hin. rewrite F in Hin. injection Hin as <-.
  unfold expired in E. repeat (apply andb_true_iff in E; destruct E as [E ?]).
  apply negb_true_iff in E. apply Z.ltb_lt in H1, H0. apply negb_true_iff in H.
  repeat split; auto. intro Hh. apply has_handle_In in Hh. congruence.
Qed.

End Store.
Print Assumptions reachable_Inv.
Print Assumptions dropped_only_if.
