#!/bin/sh
cd /root/wt/M
for d in /verif/seeded-harmless/db-db-audit-[1-4] /verif/seeded-harmless/db-kv-[1-4] /verif/seeded-harmless/server-[1-4]; do
  a=harm-$(basename $d | sed "s/-[1-4]$//")
  case $a in
    harm-db-kv|harm-db-db-audit) ps="C01 C02 C03 C04 C05 C06 C08 C09 C14 C17 C18";;
    harm-server) ps="C01 C05 C06 C08 C09 C14 C17 C18 C11";;
    harm-acl-api) ps="C01 C06 C07 C08 C09 C10 C11 C13 C16 C18";;
    harm-client-*) ps="C09 C10 C11 C12 C13 C15 C16 C18 C19 C20";;
    harm-cmd) ps="C18 C02 C08 C10";;
  esac
  bin/harmrun $d $ps 2>&1 | grep -v WARNING
done
echo ALLDONE
