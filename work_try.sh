#!/bin/sh
# usage: work_try.sh <seed dir> <Cxx>...   (applies patch in scratch worktree, runs checks from this verif worktree)
D=$(realpath $1); shift
WT=/tmp/wt-try-$$
git -C /repo worktree add --detach $WT >/dev/null 2>&1
( cd $WT && git apply $D/patch.diff ) || echo "APPLY FAILED"
for p in "$@"; do VERIF_REPO=$WT bin/check $p 2>&1 | grep -E "\[check\] $p" | grep -o "$p quick.*" | sed "s|^|$(basename $(dirname $D))/$(basename $D) |"; done
git -C /repo worktree remove --force $WT; git -C /repo worktree prune
